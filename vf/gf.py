"""GF(2^8) with polynomial 0x11d and the documented generator matrices, from their
definitions only (never reads raid/tables.c).  Fast stripe parity through
bytes.translate + big-int xor."""

POLY = 0x11D


def mul(a, b):
    r = 0
    while b:
        if b & 1:
            r ^= a
        a <<= 1
        if a & 0x100:
            a ^= POLY
        b >>= 1
    return r


def _inv_table():
    t = [0] * 256
    for a in range(1, 256):
        for b in range(1, 256):
            if mul(a, b) == 1:
                t[a] = b
                break
    return t


INV = _inv_table()


def pow2(n):
    v = 1
    for _ in range(n):
        v = mul(v, 2)
    return v


def cauchy(nrows=6, ncols=251):
    """Extended Cauchy matrix: row0 = 1, row1 = 2^i, row j>=2 = 1/(2^-i + 2^(j-1)),
    each of those rows normalised by its first element."""
    m = [[1] * ncols, []]
    v = 1
    p2 = []
    for i in range(ncols):
        p2.append(v)
        v = mul(v, 2)
    m[1] = list(p2)
    for j in range(2, nrows):
        y = pow2(j - 1)
        row = [INV[y ^ INV[p2[i]]] for i in range(ncols)]
        f = INV[row[0]]
        m.append([mul(x, f) for x in row])
    return m[:nrows]


def power(ncols=251):
    """Vandermonde/power matrix of the z mode: 1, 2^i, (2^-1)^i."""
    half = INV[2]
    rows = [[1] * ncols, [], []]
    v = 1
    w = 1
    for _ in range(ncols):
        rows[1].append(v)
        rows[2].append(w)
        v = mul(v, 2)
        w = mul(w, half)
    return rows


_MULTAB = {}


def multab(c):
    t = _MULTAB.get(c)
    if t is None:
        t = bytes(mul(c, x) for x in range(256))
        _MULTAB[c] = t
    return t


_CAUCHY = None
_POWER = None


def matrix(mode="cauchy"):
    global _CAUCHY, _POWER
    if mode == "cauchy":
        if _CAUCHY is None:
            _CAUCHY = cauchy()
        return _CAUCHY
    if _POWER is None:
        _POWER = power()
    return _POWER


def stripe_parity(blocks, nlevels, size, mode="cauchy"):
    """blocks: dict column -> bytes (shorter than size = zero padded).
    Returns list of nlevels parity blocks of `size` bytes."""
    m = matrix(mode)
    acc = [0] * nlevels
    for col, data in blocks.items():
        if not data:
            continue
        if len(data) < size:
            data = data + bytes(size - len(data))
        for l in range(nlevels):
            c = m[l][col]
            d = data if c == 1 else data.translate(multab(c))
            acc[l] ^= int.from_bytes(d, "little")
    return [a.to_bytes(size, "little") for a in acc]


def det(mat):
    """Determinant (zero / non-zero matters) of a square matrix over GF(2^8)."""
    n = len(mat)
    a = [list(r) for r in mat]
    d = 1
    for c in range(n):
        p = None
        for r in range(c, n):
            if a[r][c]:
                p = r
                break
        if p is None:
            return 0
        a[c], a[p] = a[p], a[c]
        d = mul(d, a[c][c])
        iv = INV[a[c][c]]
        for r in range(c + 1, n):
            if a[r][c]:
                f = mul(a[r][c], iv)
                a[r] = [x ^ mul(f, y) for x, y in zip(a[r], a[c])]
    return d
