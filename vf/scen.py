"""Seeded scenario generator: configurations, file-system histories, damage plans,
tree verification against the version store."""
import os
import random
import shutil
import stat

from . import arr as A
from . import content as cnt


class CaseError(Exception):
    """The harness could not bring a case where it wanted (inconclusive, not a violation)."""


def gen_config(rng, force=None, max_nd=6, max_lev=6, allow_splits=True, allow_hashsize=True):
    nlev = rng.choice([1, 1, 2, 2, 3, 3, 4, 5, 6])
    nlev = min(nlev, max_lev)
    zmode = (nlev == 3 and rng.random() < 0.4)
    nd = rng.randint(1, max_nd)
    cfg = dict(nd=nd, nlev=nlev, zmode=zmode,
               blocksize_k=rng.choice([1, 1, 1, 2, 4]),
               hashsize=(rng.choice([16, 16, 16, 8, 4, 2]) if allow_hashsize else 16),
               ncontent=rng.randint(1, 4),
               content_on_data=rng.random() < 0.7)
    if allow_splits and rng.random() < 0.3:
        cfg["splits"] = [rng.randint(1, 4) for _ in range(nlev)]
    if force:
        cfg.update(force)
        if "nlev" in force and "splits" in cfg and len(cfg["splits"]) != cfg["nlev"]:
            cfg.pop("splits")
        if cfg.get("zmode") and cfg["nlev"] != 3:
            cfg["zmode"] = False
    return cfg


def make(rng, cfg, tag="verif", ext4=False):
    root = A.scratch_root(tag, ext4)
    a = A.Array(root, **cfg)
    fs = A.FsModel(a, rng)
    return a, fs


def describe_cfg(cfg):
    return {k: v for k, v in cfg.items()}


# ---------------------------------------------------------------------- fs mutations

OPS = ["create", "create", "overwrite", "append", "truncate", "delete", "rename", "move_disk", "copy",
       "touch", "swap", "to_dir", "to_link", "mkdir", "rmdir_entry", "same_size_rewrite", "delete_create", "same_second_rewrite", "relink"]


def _free_name(fs, rng, d, hostile):
    for _ in range(20):
        nm = A.gen_name(rng, hostile)
        base = b""
        dirs = [k for k, e in fs.entries[d].items() if e[0] == "dir"]
        parents = sorted({k.rsplit(b"/", 1)[0] for k in fs.entries[d] if b"/" in k})
        if parents and rng.random() < 0.4:
            base = rng.choice(parents)
        elif dirs and rng.random() < 0.3:
            base = rng.choice(dirs)
        sub = base + b"/" + nm if base else nm
        if sub in fs.entries[d]:
            continue
        if any(k.startswith(sub + b"/") for k in fs.entries[d]):
            continue
        # a parent component must not be a non-dir entry
        ok = True
        parts = sub.split(b"/")
        for i in range(1, len(parts)):
            pe = fs.entries[d].get(b"/".join(parts[:i]))
            if pe is not None and pe[0] != "dir":
                ok = False
        if ok:
            return sub
    return None


def mutate(fs, rng, nops, hostile=0.15, ops=None, disks=None, maxblocks=5):
    """Apply nops random operations through the model; returns their descriptions."""
    arr = fs.arr
    disks = disks if disks is not None else list(arr.disks)
    done = []
    ops = ops or OPS
    for _ in range(nops):
        op = rng.choice(ops)
        d = rng.choice(disks)
        files = fs.files(d)
        try:
            if op == "create" or not files:
                sub = _free_name(fs, rng, d, hostile)
                if sub is None:
                    continue
                fs.write(d, sub, A.gen_bytes(rng, A.gen_size(rng, arr.bs, maxblocks)))
                done.append(("create", d, sub))
                continue
            _d, sub = rng.choice(files)
            e = fs.entries[d][sub]
            has_links = any(x[0] == "hardlink" and x[1] == sub for x in fs.entries[d].values())
            if op == "overwrite":
                fs.write(d, sub, A.gen_bytes(rng, A.gen_size(rng, arr.bs, maxblocks)), keep_inode=rng.random() < 0.5)
            elif op == "append":
                fs.write(d, sub, e[1] + A.gen_bytes(rng, rng.randint(1, 2 * arr.bs)), keep_inode=True)
            elif op == "truncate":
                if len(e[1]) == 0:
                    continue
                fs.write(d, sub, e[1][:rng.randint(0 if rng.random() < 0.1 else 1, len(e[1]))], keep_inode=True)
            elif op == "same_size_rewrite":
                fs.write(d, sub, A.gen_bytes(rng, len(e[1]), "rand"), keep_inode=rng.random() < 0.5)
            elif op == "same_second_rewrite":
                # same size, new bytes, new time-stamp inside the SAME second: only the sub-second part tells the versions apart
                # (0 -> non-zero, non-zero -> 0, or another non-zero value)
                if len(e[1]) == 0:
                    continue
                sec, ns = divmod(e[2], 10**9)
                for _ in range(8):
                    ns2 = rng.randint(1, 999_999_999) if (ns == 0 or rng.random() < 0.5) else 0
                    # never recreate the (size, time-stamp) of ANY version ever written anywhere: with the same name on another
                    # disk that would be a decoy for copy detection (C19's business, and subject to finding F24)
                    if ns2 != ns and not any(k[2] == len(e[1]) and k[3] == sec and k[4] == ns2 for k in fs.store):
                        break
                else:
                    continue
                fs.write(d, sub, A.gen_bytes(rng, len(e[1]), "rand"), mtime_ns=sec * 10**9 + ns2, keep_inode=rng.random() < 0.6)
            elif op == "delete":
                fs.remove(d, sub)
            elif op == "rename":
                if has_links:
                    continue
                sub2 = _free_name(fs, rng, d, hostile)
                if sub2 is None:
                    continue
                fs.rename(d, sub, d, sub2)
                op = ("rename", d, sub, sub2)
            elif op == "move_disk":
                if has_links or len(disks) < 2:
                    continue
                d2 = rng.choice([x for x in disks if x != d])
                sub2 = sub if (rng.random() < 0.5 and sub not in fs.entries[d2] and _clear_path(fs, d2, sub)) else _free_name(fs, rng, d2, hostile)
                if sub2 is None:
                    continue
                fs.rename(d, sub, d2, sub2)
                op = ("move_disk", d, sub, d2, sub2)
            elif op == "copy":
                d2 = rng.choice(disks)
                sub2 = sub if (d2 != d and sub not in fs.entries[d2] and _clear_path(fs, d2, sub)) else _free_name(fs, rng, d2, hostile)
                if sub2 is None:
                    continue
                fs.copy(d, sub, d2, sub2)
                op = ("copy", d, sub, d2, sub2)
            elif op == "touch":
                fs.set_mtime(d, sub)
            elif op == "swap":
                others = [s for (_x, s) in files if s != sub]
                if not others or has_links:
                    continue
                s2 = rng.choice(others)
                if any(x[0] == "hardlink" and x[1] == s2 for x in fs.entries[d].values()):
                    continue
                e2 = fs.entries[d][s2]
                if e2[0] == "file" and e[0] == "file" and len(e2[1]) == len(e[1]) and e2[2] == e[2]:
                    # other bytes under an unchanged name, size and time-stamp: invisible by design, never generated; the same
                    # bytes (two copies exchanging their inodes): no change at all for the user, although a scanner that
                    # trusts inodes reports two moves - not generated either
                    continue
                tmp = fs.path(d, b".swap_tmp_verif")
                os.rename(fs.path(d, sub), tmp)
                os.rename(fs.path(d, s2), fs.path(d, sub))
                os.rename(tmp, fs.path(d, s2))
                fs.entries[d][sub], fs.entries[d][s2] = e2, e
                fs._remember(d, sub, e2[1], e2[2])
                fs._remember(d, s2, e[1], e[2])
                op = ("swap", d, sub, s2)
            elif op == "to_dir":
                if has_links:
                    continue
                fs.remove(d, sub)
                if rng.random() < 0.5:
                    fs.mkdir(d, sub)
                else:
                    fs.write(d, sub + b"/" + A.gen_name(rng, hostile), A.gen_bytes(rng, rng.randint(0, 2 * arr.bs)))
            elif op == "to_link":
                if has_links:
                    continue
                fs.remove(d, sub)
                fs.symlink(d, sub, rng.choice([b"target", b"/abs/target", b"../x", A.gen_name(rng, hostile)]))
            elif op == "relink":
                # an existing link name changes kind AND target: symbolic link -> hard link of some file, hard link -> symbolic
                # link with some target text, or a symbolic link gets another target
                links = [(s_, x) for s_, x in fs.entries[d].items() if x[0] in ("symlink", "hardlink")]
                if not links:
                    continue
                s2, x = rng.choice(links)
                plain = [s_ for (_d, s_) in files if not any(y[0] == "hardlink" and y[1] == s_ for y in fs.entries[d].values()) and s_ != s2]
                if x[0] == "symlink" and plain and rng.random() < 0.6:
                    fs.remove(d, s2)
                    fs.hardlink(d, s2, rng.choice(plain))
                    op = ("relink", d, s2, "symlink->hardlink")
                elif x[0] == "hardlink" and rng.random() < 0.8:
                    fs.remove(d, s2)
                    fs.symlink(d, s2, rng.choice([b"elsewhere", b"/abs/other", b"../y", A.gen_name(rng, hostile)]))
                    op = ("relink", d, s2, "hardlink->symlink")
                elif x[0] == "symlink":
                    fs.remove(d, s2)
                    fs.symlink(d, s2, x[1] + b".moved")
                    op = ("relink", d, s2, "retarget")
                else:
                    continue
            elif op == "mkdir":
                s2 = _free_name(fs, rng, d, hostile)
                if s2 is None:
                    continue
                fs.mkdir(d, s2)
                op = ("mkdir", d, s2)
            elif op == "rmdir_entry":
                nonfiles = [s for s, x in fs.entries[d].items() if x[0] in ("dir", "symlink", "hardlink")]
                if not nonfiles:
                    continue
                s2 = rng.choice(nonfiles)
                fs.remove(d, s2)
                op = ("rm", d, s2)
            elif op == "delete_create":
                # inode reuse: delete, then create another file (possibly same name)
                fs.remove(d, sub)
                s2 = sub if rng.random() < 0.5 and _clear_path(fs, d, sub) else _free_name(fs, rng, d, hostile)
                if s2 is None:
                    continue
                fs.write(d, s2, A.gen_bytes(rng, A.gen_size(rng, arr.bs, maxblocks)))
                op = ("delete_create", d, sub, s2)
            else:
                continue
            done.append(op if isinstance(op, tuple) else (op, d, sub))
        except OSError as ex:
            raise CaseError("fs op %s failed: %s" % (op, ex))
    return done


def _clear_path(fs, d, sub):
    """True when sub can be created on disk d without colliding with an entry or a parent non-dir."""
    if sub in fs.entries[d] or any(k.startswith(sub + b"/") for k in fs.entries[d]):
        return False
    parts = sub.split(b"/")
    for i in range(1, len(parts)):
        pe = fs.entries[d].get(b"/".join(parts[:i]))
        if pe is not None and pe[0] != "dir":
            return False
    return True


# ---------------------------------------------------------------------- expectations

def recorded_state(fs):
    """Deep copy of what a sync run *now* should record."""
    return fs.clone_entries()


def content_copy_subs(arr):
    """Per disk: set of subs that are the tool's own files (content copies etc.)."""
    out = {i: set() for i in range(len(arr.disk_names))}
    for c in arr.cpaths():
        for i in range(len(arr.disk_names)):
            dd = arr.ddir(i) + "/"
            if c.startswith(dd):
                rel = os.fsencode(c[len(dd):])
                out[i].update({rel, rel + b".tmp", rel + b".lock"})
    return out


def verify_tree(arr, fs, state, disks=None, allow_extra=False, mtime_exempt=None):
    """Compare the data dirs with a recorded state (from recorded_state()).
    Returns list of problem dicts."""
    probs = []
    own = content_copy_subs(arr)
    disks = disks if disks is not None else list(arr.disks)
    # (size, mtime) multiplicity per disk for the documented time-stamp exemption
    for d in disks:
        ents = state[d]
        stamps = {}
        for s, e in ents.items():
            if e[0] == "file":
                stamps.setdefault((len(e[1]), e[2]), []).append(s)
        snap = A.snapshot(arr.ddir(d), with_bytes=False)
        seen = set()
        for s, e in ents.items():
            p = fs.path(d, s)
            seen.add(s)
            try:
                st = os.lstat(p)
            except OSError:
                probs.append(dict(disk=d, sub=s, what="missing", kind=e[0]))
                continue
            if e[0] == "file" or e[0] == "hardlink":
                if e[0] == "hardlink":
                    te = ents.get(e[1])
                    if te is None or te[0] != "file":
                        continue
                    data, mt = te[1], te[2]
                    try:
                        st2 = os.lstat(fs.path(d, e[1]))
                        if st2.st_ino != st.st_ino:
                            probs.append(dict(disk=d, sub=s, what="hardlink not linked to target"))
                    except OSError:
                        pass
                else:
                    data, mt = e[1], e[2]
                if not stat.S_ISREG(st.st_mode):
                    probs.append(dict(disk=d, sub=s, what="not a regular file"))
                    continue
                with open(p, "rb") as f:
                    got = f.read()
                if got != data:
                    nd = sum(1 for a_, b_ in zip(got, data) if a_ != b_) + abs(len(got) - len(data))
                    probs.append(dict(disk=d, sub=s, what="content differs", bytes_differ=nd, size=len(got), want_size=len(data)))
                elif st.st_mtime_ns != mt:
                    if len(stamps.get((len(data), mt), [])) > 1:
                        pass  # documented exemption: another recorded file has the same size and time-stamp
                    elif mtime_exempt and (d, s) in mtime_exempt:
                        pass
                    else:
                        probs.append(dict(disk=d, sub=s, what="mtime differs", got=st.st_mtime_ns, want=mt))
            elif e[0] == "symlink":
                if not stat.S_ISLNK(st.st_mode):
                    probs.append(dict(disk=d, sub=s, what="not a symlink"))
                elif os.readlink(p) != e[1]:
                    probs.append(dict(disk=d, sub=s, what="symlink target differs", got=os.readlink(p), want=e[1]))
            elif e[0] == "dir":
                if not stat.S_ISDIR(st.st_mode):
                    probs.append(dict(disk=d, sub=s, what="not a dir"))
        if not allow_extra:
            for s, v in snap.items():
                if s in seen or s in own[d]:
                    continue
                if v[0] == "dir":
                    # parents of recorded entries are fine
                    if any(k.startswith(s + b"/") for k in ents):
                        continue
                probs.append(dict(disk=d, sub=s, what="unexpected extra entry", kind=v[0]))
    return probs


# ---------------------------------------------------------------------- damage

def wipe_disk(arr, d):
    p = arr.ddir(d)
    shutil.rmtree(p)
    os.makedirs(p)


def flip_bytes(path, rng, offset, length, restore_mtime=True, shape="byte"):
    st = os.lstat(path)
    with open(path, "r+b") as f:
        f.seek(offset)
        old = f.read(length)
        if not old:
            return False
        if shape == "bit":
            i = rng.randrange(len(old))
            new = old[:i] + bytes([old[i] ^ (1 << rng.randrange(8))]) + old[i + 1:]
        elif shape == "byte":
            i = rng.randrange(len(old))
            new = old[:i] + bytes([old[i] ^ rng.randint(1, 255)]) + old[i + 1:]
        elif shape == "zero":
            new = bytes(len(old))
        else:  # block
            new = rng.getrandbits(8 * len(old)).to_bytes(len(old), "little")
            if new == old:
                new = bytes([old[0] ^ 1]) + old[1:]
        if new == old:
            return False
        f.seek(offset)
        f.write(new)
    if restore_mtime:
        os.utime(path, ns=(st.st_atime_ns, st.st_mtime_ns))
    return True


def damage_parity_file(path, rng, how):
    if not os.path.exists(path):
        return False
    size = os.path.getsize(path)
    if how == "delete":
        os.unlink(path)
    elif how == "zero":
        with open(path, "r+b") as f:
            f.write(bytes(size))
    elif how == "truncate":
        with open(path, "r+b") as f:
            n = rng.randint(0, max(0, size - 1))
            if rng.random() < 0.6:
                n -= n % 1024  # block aligned cut (every block size used is a multiple of 1 KiB)... 
                n -= n % 4096 if rng.random() < 0.5 else 0
            f.truncate(max(0, n))
    elif how == "random":
        with open(path, "r+b") as f:
            f.write(rng.getrandbits(8 * size).to_bytes(size, "little") if size else b"")
    else:  # flips
        if size == 0:
            return False
        with open(path, "r+b") as f:
            for _ in range(rng.randint(1, 6)):
                o = rng.randrange(size)
                f.seek(o)
                b = f.read(1)
                f.seek(o)
                f.write(bytes([b[0] ^ rng.randint(1, 255)]))
    return True


def damage_data_disk(arr, fs, rng, d, how, state):
    """Damage data disk d on the file-system only (the model keeps the synced truth)."""
    files = [(s, e) for s, e in state[d].items() if e[0] == "file"]
    if how == "wipe":
        wipe_disk(arr, d)
        return True
    if not files:
        return False
    did = False
    if how == "delete":
        for s, e in rng.sample(files, rng.randint(1, len(files))):
            try:
                os.unlink(fs.path(d, s))
                did = True
            except OSError:
                pass
    elif how == "rename-over":
        # one file is gone and another one of the same disk sits under its name (rm X; mv Y X): name X now carries Y's
        # bytes, time-stamp and inode number, Y is missing - preferably between files of equal size
        if len(files) >= 2:
            groups = {}
            for s, e in files:
                groups.setdefault(len(e[1]), []).append(s)
            same = [g for g in groups.values() if len(g) >= 2]
            for _ in range(rng.randint(1, 2)):
                x, y = rng.sample(rng.choice(same), 2) if (same and rng.random() < 0.8) else rng.sample([s for s, _e in files], 2)
                try:
                    if os.path.isfile(fs.path(d, x)) and os.path.isfile(fs.path(d, y)) and os.lstat(fs.path(d, x)).st_nlink == 1 and os.lstat(fs.path(d, y)).st_nlink == 1:
                        os.unlink(fs.path(d, x))
                        os.rename(fs.path(d, y), fs.path(d, x))
                        did = True
                except OSError:
                    pass
    elif how == "truncate":
        for s, e in rng.sample(files, rng.randint(1, len(files))):
            if len(e[1]) == 0:
                continue
            p = fs.path(d, s)
            try:
                st = os.lstat(p)
                with open(p, "r+b") as f:
                    f.truncate(rng.randint(0, len(e[1]) - 1))
                if rng.random() < 0.5:
                    os.utime(p, ns=(st.st_atime_ns, st.st_mtime_ns))
                did = True
            except OSError:
                pass
    elif how in ("flip", "flip-newtime"):
        # "flip-newtime": corrupted in place and the time-stamp moved too (the damaged file no longer looks like itself)
        for s, e in rng.sample(files, rng.randint(1, len(files))):
            if len(e[1]) == 0:
                continue
            try:
                for _ in range(rng.randint(1, 3)):
                    o = rng.randrange(len(e[1]))
                    did |= flip_bytes(fs.path(d, s), rng, o, rng.randint(1, 64), how == "flip", rng.choice(["bit", "byte", "block", "zero"]))
                if how == "flip-newtime":
                    # several flips can cancel out: a file that ends up with its synced bytes is not damaged, only re-timed,
                    # and fix has no reason to touch it - put the time-stamp back so that "damage" means damage
                    with open(fs.path(d, s), "rb") as fh:
                        if fh.read() == e[1]:
                            os.utime(fs.path(d, s), ns=(e[2], e[2]))
            except OSError:
                pass
    elif how == "relinks":
        # links that are still there but no longer what was recorded: a symlink pointing to a shorter / longer / other
        # target or replaced by a plain file; a hard-link replaced by an independent copy of its bytes
        for s, e in list(state[d].items()):
            if e[0] not in ("symlink", "hardlink") or rng.random() < 0.25:
                continue
            p = fs.path(d, s)
            try:
                if e[0] == "symlink":
                    t = e[1]
                    k = rng.choice([0, 0, 0, 1, 1, 2, 3, 4])
                    if k == 0 and len(t) > 1:
                        nt = t[:rng.randint(1, len(t) - 1)]
                    elif k == 1:
                        nt = t + rng.choice([b"x", b".bak", b"/"])
                    elif k == 2:
                        nt = bytes([t[0] ^ 1]) + t[1:] if t[0] not in (0x2e, 0x2f, 0x2f ^ 1, 1) else b"q" + t
                    elif k == 3:
                        nt = None
                    else:
                        nt = b"somewhere/else"
                    os.unlink(p)
                    if nt is None:
                        with open(p, "wb") as fh:
                            fh.write(t)
                    else:
                        os.symlink(nt, p)
                    did = True
                else:
                    with open(p, "rb") as fh:
                        data = fh.read()
                    st = os.lstat(p)
                    os.unlink(p)
                    with open(p, "wb") as fh:
                        fh.write(data)
                    os.utime(p, ns=(st.st_atime_ns, st.st_mtime_ns))
                    did = True
            except OSError:
                pass
    elif how == "rmlinks":
        others = [s for s, e in state[d].items() if e[0] in ("symlink", "hardlink", "dir")]
        for s in others:
            p = fs.path(d, s)
            try:
                if state[d][s][0] == "dir":
                    os.rmdir(p)
                else:
                    os.unlink(p)
                did = True
            except OSError:
                pass
    return did
