"""Evidence writer (EVIDENCE.schema.json) and the common verdict plumbing."""
import json
import os
import sys
import time

from . import build, findings

# VERIF_EVIDENCE_DIR: only tools/try_mutant.py sets it, so that runs against a deliberately broken tree do not overwrite
# the evidence of the real tree
EVDIR = os.environ.get("VERIF_EVIDENCE_DIR") or os.path.join(build.VERIF, "evidence")
REPLAYDIR = os.path.join(EVDIR, "replay")


def jsonable(x):
    if isinstance(x, bytes):
        try:
            s = x.decode("ascii")
            if s.isprintable():
                return s
        except UnicodeDecodeError:
            pass
        return "hex:" + x.hex()
    if isinstance(x, dict):
        return {str(jsonable(k)): jsonable(v) for k, v in x.items()}
    if isinstance(x, (list, tuple, set, frozenset)):
        return [jsonable(v) for v in x]
    if isinstance(x, (int, float, str)) or x is None:
        return x
    return repr(x)


class Run:
    """One check run: collects coverage counts, samples, violations."""

    def __init__(self, pid, tier, seed, level, rule):
        self.pid = pid
        self.tier = tier
        self.seed = seed
        self.level = level
        self.rule = rule
        self.t0 = time.time()
        self.evaluations = 0
        self.nontrivial = set()
        self.samples = []
        self.extra = {}
        self.assumptions = []
        self.violations = []     # (key, description, replay dict)
        self.known_hit = {}      # finding id -> count
        self.inconclusive = []
        self.exhaustive = None
        self.counters = {}

    def count(self, name, n=1):
        self.counters[name] = self.counters.get(name, 0) + n

    def case(self, key=None, nontrivial=True):
        self.evaluations += 1
        if nontrivial and key is not None:
            self.nontrivial.add(key if isinstance(key, (str, int, tuple)) else repr(key))

    def sample(self, s, limit=6):
        if len(self.samples) < limit:
            self.samples.append(jsonable(s))

    def violation(self, key, desc, replay=None):
        """Route a refuting observation through the known-findings matcher."""
        f = findings.match(self.pid, key)
        if f is not None:
            self.known_hit[f["id"]] = self.known_hit.get(f["id"], 0) + 1
            self.count("known_finding_witnesses")
            return False
        self.violations.append((key, desc, replay))
        return True

    def inconc(self, why):
        self.inconclusive.append(why)

    def finish(self, min_eval=1, min_nontrivial=2):
        wall = time.time() - self.t0
        os.makedirs(EVDIR, exist_ok=True)
        cov = {
            "evaluations": self.evaluations,
            "distinct_nontrivial": len(self.nontrivial),
            "rule": self.rule,
            "samples": self.samples or [],
            "counters": self.counters,
            "known_findings_hit": self.known_hit,
            "inconclusive": self.inconclusive[:20],
        }
        if self.exhaustive is not None:
            cov["exhaustive"] = self.exhaustive
        cov.update(jsonable(self.extra))
        ev = {
            "property_id": self.pid, "tier": self.tier, "seed": self.seed, "level": self.level,
            "coverage": cov, "assumptions": self.assumptions, "wall_s": round(wall, 2),
            "violations": len(self.violations),
        }
        replay_paths = []
        if self.violations:
            os.makedirs(REPLAYDIR, exist_ok=True)
            for i, (key, desc, replay) in enumerate(self.violations[:20]):
                p = os.path.join(REPLAYDIR, "%s-%s-%d-%d.json" % (self.pid, self.tier, self.seed, i))
                with open(p, "w") as f:
                    json.dump(jsonable({"property": self.pid, "key": key, "description": desc, "replay": replay,
                                        "seed": self.seed, "tier": self.tier}), f, indent=1)
                replay_paths.append(p)
            ev["coverage"]["violation_keys"] = [jsonable(v[0]) for v in self.violations[:50]]
        tmp = os.path.join(EVDIR, "%s.json.tmp%d" % (self.pid, os.getpid()))
        with open(tmp, "w") as f:
            json.dump(ev, f, indent=1)
        os.rename(tmp, os.path.join(EVDIR, "%s.json" % self.pid))
        for fid, n in sorted(self.known_hit.items()):
            fd = findings.by_id(fid)
            print("KNOWN-FINDING: property=%s %s [%s; %d witness(es) this run]" % (self.pid, fd["what"], fid, n))
        if self.violations:
            for (key, desc, _r), p in zip(self.violations, replay_paths):
                print("VIOLATION property=%s replay=%s" % (self.pid, p))
                print("  key=%s\n  %s" % (jsonable(key), desc))
            sys.stdout.flush()
            return 1
        nexc = self.counters.get("harness_exceptions", 0)
        if nexc > 2 and nexc * 20 > max(1, getattr(self, "ncases", 0)):
            # a harness that crashes on more than 5% of its cases has not explored what it claims
            print("INCONCLUSIVE property=%s %d harness exceptions: %s" % (self.pid, nexc, "; ".join(self.inconclusive[:2])[-1500:]))
            return 2
        if self.inconclusive and (self.evaluations < min_eval or len(self.nontrivial) < min_nontrivial):
            print("INCONCLUSIVE property=%s %s" % (self.pid, "; ".join(self.inconclusive[:5])))
            return 2
        if self.evaluations < min_eval or len(self.nontrivial) < min_nontrivial:
            print("INCONCLUSIVE property=%s observed too little: evaluations=%d nontrivial=%d" %
                  (self.pid, self.evaluations, len(self.nontrivial)))
            return 2
        print("OK property=%s tier=%s seed=%d evaluations=%d distinct_nontrivial=%d wall=%.1fs %s" %
              (self.pid, self.tier, self.seed, self.evaluations, len(self.nontrivial), wall,
               " ".join("%s=%s" % kv for kv in sorted(self.counters.items()))))
        return 0
