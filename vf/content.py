"""Independent decoder and encoder for SnapRAID content files (SNAPCNT1/2/3).

Written from the format description (DESIGN.md appendix A); shares no code with
cmdline/state.c or stream.c.  decode() -> Content, encode(Content) -> bytes.
"""
BLK, CHG, REP, DELETED = "blk", "chg", "rep", "del"
_TAG2STATE = {ord("b"): BLK, ord("g"): CHG, ord("p"): REP, ord("n"): CHG}
_STATE2TAG = {BLK: b"b", CHG: b"g", REP: b"p"}
HASHK = {ord("u"): "murmur3", ord("k"): "spooky2", ord("m"): "metro"}
HASHK_INV = {v: bytes([k]) for k, v in HASHK.items()}
NSEC_INVALID = -1


class DecodeError(Exception):
    pass


_CRCT = None


def _crc_table():
    global _CRCT
    if _CRCT is None:
        t = []
        for i in range(256):
            c = i
            for _ in range(8):
                c = (c >> 1) ^ 0x82F63B78 if c & 1 else c >> 1
            t.append(c)
        _CRCT = t
    return _CRCT


def crc32c(data, crc=0):
    t = _crc_table()
    c = crc ^ 0xFFFFFFFF
    for b in data:
        c = t[(c ^ b) & 0xFF] ^ (c >> 8)
    return c ^ 0xFFFFFFFF


class File:
    __slots__ = ("disk", "sub", "size", "mtime_sec", "mtime_nsec", "inode", "blocks", "off")

    def __init__(self, disk, sub, size, mtime_sec, mtime_nsec, inode, blocks=None):
        self.disk = disk
        self.sub = sub
        self.size = size
        self.mtime_sec = mtime_sec
        self.mtime_nsec = mtime_nsec
        self.inode = inode
        self.blocks = blocks if blocks is not None else []  # list of (pos, state, hash)
        self.off = None

    def key(self):
        return (self.disk, self.sub)


class Content:
    def __init__(self):
        self.version = 2
        self.blocksize = 0
        self.blockmax = 0
        self.hashsize = 16
        self.hash = None
        self.hashseed = b""
        self.prevhash = None
        self.prevhashseed = b""
        self.maps = []      # dict(name,pos,total,free,uuid,legacy)
        self.parities = []  # dict(level,total,free,splits=[dict(path,uuid,size)], legacy)
        self.files = []
        self.links = []     # dict(disk,sub,linkto,kind) kind in symlink|hardlink
        self.dirs = []      # dict(disk,sub)
        self.deleted = {}   # disk idx -> {pos: hash}
        self.holes_seen = []  # disk indices with an 'h' record, in order
        self.info_oldest = 0
        self.info = []      # per position: None | (time, bad, rehash, justsynced)
        self.crc = None
        self.order = []     # record order as read (tags)
        self.fields = []    # (offset, length, kind) of varints/strings, for field-aware mutation

    # ---- derived views ----
    def disk_name(self, idx):
        return self.maps[idx]["name"]

    def disk_index(self, name):
        for i, m in enumerate(self.maps):
            if m["name"] == name:
                return i
        return None

    def position_of(self, name):
        for m in self.maps:
            if m["name"] == name:
                return m["pos"]
        return None

    def stripe_map(self):
        """pos -> list of (diskidx, kind, file, fileblockidx, state, hash); kind 'file'|'deleted'."""
        st = {}
        for f in self.files:
            for i, (pos, state, h) in enumerate(f.blocks):
                st.setdefault(pos, []).append((f.disk, "file", f, i, state, h))
        for d, dm in self.deleted.items():
            for pos, h in dm.items():
                st.setdefault(pos, []).append((d, "deleted", None, 0, DELETED, h))
        return st

    def nlevels(self):
        return len(self.parities)


class _R:
    def __init__(self, data, fields):
        self.d = data
        self.p = 0
        self.fields = fields

    def eof(self):
        return self.p >= len(self.d)

    def getc(self):
        if self.p >= len(self.d):
            raise DecodeError("eof at %d" % self.p)
        c = self.d[self.p]
        self.p += 1
        return c

    def read(self, n):
        if self.p + n > len(self.d):
            raise DecodeError("short read at %d" % self.p)
        b = self.d[self.p:self.p + n]
        self.p += n
        return b

    def b(self, bits, kind="v"):
        start = self.p
        v = 0
        s = 0
        while True:
            c = self.getc()
            if c & 0x80:
                v |= (c & 0x7F) << s
                break
            v |= c << s
            s += 7
            if s >= bits:
                raise DecodeError("varint overflow at %d" % start)
        v &= (1 << bits) - 1
        self.fields.append((start, self.p - start, kind))
        return v

    def b32(self, kind="v32"):
        return self.b(32, kind)

    def b64(self, kind="v64"):
        return self.b(64, kind)

    def bs(self, limit=4096):
        n = self.b32("slen")
        if n + 1 > limit:
            raise DecodeError("string too long at %d" % self.p)
        return self.read(n)


def decode(data, strict_crc=True):
    c = Content()
    r = _R(data, c.fields)
    hdr = r.read(12)
    if hdr == b"SNAPCNT1\n\x03\x00\x00":
        c.version = 1
    elif hdr == b"SNAPCNT2\n\x03\x00\x00":
        c.version = 2
    elif hdr == b"SNAPCNT3\n\x03\x00\x00":
        c.version = 3
    else:
        raise DecodeError("bad header")
    crc_checked = False
    while not r.eof():
        tagpos = r.p
        t = r.getc()
        c.fields.append((tagpos, 1, "tag"))
        ch = chr(t)
        c.order.append(ch)
        if ch == "z":
            c.blocksize = r.b32()
            if c.blocksize == 0:
                raise DecodeError("zero blocksize")
        elif ch == "x":
            c.blockmax = r.b32()
        elif ch == "y":
            c.hashsize = r.b32()
            if not 2 <= c.hashsize <= 16:
                raise DecodeError("bad hashsize")
        elif ch == "c":
            k = r.getc()
            if k not in HASHK:
                raise DecodeError("bad hash kind")
            c.hash = HASHK[k]
            c.hashseed = r.read(16)
        elif ch == "C":
            k = r.getc()
            if k not in HASHK:
                raise DecodeError("bad prevhash kind")
            c.prevhash = HASHK[k]
            c.prevhashseed = r.read(16)
        elif ch in "mM":
            name = r.bs()
            pos = r.b32()
            total = free = 0
            if ch == "M":
                total = r.b32()
                free = r.b32()
            uuid = r.bs(128)
            c.maps.append(dict(name=name, pos=pos, total=total, free=free, uuid=uuid, legacy=(ch == "m")))
        elif ch == "P":
            lev = r.b32()
            total = r.b32()
            free = r.b32()
            uuid = r.bs(128)
            if lev >= 6:
                raise DecodeError("bad level")
            c.parities.append(dict(level=lev, total=total, free=free, legacy=True,
                                   splits=[dict(path=None, uuid=uuid, size=None)]))
        elif ch == "Q":
            lev = r.b32()
            total = r.b32()
            free = r.b32()
            ns = r.b32()
            if lev >= 6:
                raise DecodeError("bad level")
            sp = []
            for _ in range(ns):
                path = r.bs()
                uuid = r.bs(128)
                size = r.b64()
                sp.append(dict(path=path, uuid=uuid, size=size))
                if len(sp) > 64:
                    raise DecodeError("too many splits")
            c.parities.append(dict(level=lev, total=total, free=free, legacy=False, splits=sp))
        elif ch == "f":
            off = tagpos
            di = r.b32()
            if di >= len(c.maps):
                raise DecodeError("file mapping out of range")
            size = r.b64("size")
            if c.blocksize == 0:
                raise DecodeError("zero blocksize")
            if size // c.blocksize > c.blockmax:
                raise DecodeError("file too big")
            msec = r.b64("mtime")
            nsec = r.b32("nsec")
            nsec = NSEC_INVALID if nsec == 0 else nsec - 1
            inode = r.b64("inode")
            sub = r.bs()
            if not sub:
                raise DecodeError("null file")
            f = File(di, sub, size, msec, nsec, inode)
            f.off = off
            nb = (size + c.blocksize - 1) // c.blocksize
            idx = 0
            while idx < nb:
                st = r.getc()
                pos = r.b32("pos")
                cnt = r.b32("count")
                if idx + cnt > nb:
                    raise DecodeError("block number out of range")
                if pos + cnt > c.blockmax:
                    raise DecodeError("block pos out of range")
                if st not in _TAG2STATE:
                    raise DecodeError("bad block type")
                if cnt == 0:
                    raise DecodeError("zero run")
                for k in range(cnt):
                    if st == ord("n"):
                        h = b"\xff" * c.hashsize
                    else:
                        h = r.read(c.hashsize)
                    f.blocks.append((pos + k, _TAG2STATE[st], h))
                idx += cnt
            c.files.append(f)
        elif ch in "sa":
            di = r.b32()
            if di >= len(c.maps):
                raise DecodeError("link mapping out of range")
            sub = r.bs()
            to = r.bs()
            if not sub:
                raise DecodeError("null link")
            if ch == "a" and not to:
                raise DecodeError("empty hardlink")
            c.links.append(dict(disk=di, sub=sub, linkto=to, kind="symlink" if ch == "s" else "hardlink"))
        elif ch == "r":
            di = r.b32()
            if di >= len(c.maps):
                raise DecodeError("dir mapping out of range")
            sub = r.bs()
            if not sub:
                raise DecodeError("null dir")
            c.dirs.append(dict(disk=di, sub=sub))
        elif ch == "h":
            di = r.b32()
            if di >= len(c.maps):
                raise DecodeError("hole mapping out of range")
            c.holes_seen.append(di)
            dm = c.deleted.setdefault(di, {})
            pos = 0
            while pos < c.blockmax:
                cnt = r.b32("count")
                if pos + cnt > c.blockmax:
                    raise DecodeError("hole out of range")
                k = r.getc()
                if k == ord("o"):
                    for _ in range(cnt):
                        dm[pos] = r.read(c.hashsize)
                        pos += 1
                elif k == ord("O"):
                    if cnt == 0:
                        raise DecodeError("zero hole run")
                    pos += cnt
                else:
                    raise DecodeError("bad hole type")
        elif ch == "i":
            c.info_oldest = r.b32("oldest")
            c.info = []
            pos = 0
            while pos < c.blockmax:
                cnt = r.b32("count")
                if pos + cnt > c.blockmax:
                    raise DecodeError("info out of range")
                if cnt == 0:
                    raise DecodeError("zero info run")
                flag = r.b32("flag")
                if flag & 1:
                    t_ = r.b32("time")
                    val = ((t_ + c.info_oldest) & 0xFFFFFFFF, bool(flag & 2), bool(flag & 4), bool(flag & 8))
                    if flag & 4 and c.prevhash is None:
                        raise DecodeError("rehash without prevhash")
                else:
                    val = None
                c.info.extend([val] * cnt)
                pos += cnt
        elif ch == "N":
            computed = crc32c(data[:r.p])
            stored = int.from_bytes(r.read(4), "little")
            c.crc = stored
            if strict_crc and stored != computed:
                raise DecodeError("crc mismatch")
            crc_checked = True
        else:
            raise DecodeError("invalid command %r at %d" % (ch, tagpos))
    if strict_crc and not crc_checked:
        raise DecodeError("no crc")
    return c


def load(path, strict_crc=True):
    with open(path, "rb") as f:
        return decode(f.read(), strict_crc)


# --------------------------------------------------------------------------- encoder

def vb(v):
    out = bytearray()
    while True:
        b = v & 0x7F
        v >>= 7
        if v:
            out.append(b)
        else:
            out.append(b | 0x80)
            return bytes(out)


def bs(s):
    return vb(len(s)) + s


def _runs(vals):
    """yield (start, end, value) for maximal runs of equal values."""
    i = 0
    n = len(vals)
    while i < n:
        j = i + 1
        while j < n and vals[j] == vals[i]:
            j += 1
        yield i, j, vals[i]
        i = j


def encode(c, version=None):
    """Byte-exact re-encoding in the writer's normal form."""
    if version is None:
        version = 2
        if c.hashsize != 16 or any(len(p["splits"]) > 1 for p in c.parities):
            version = 3
        if c.version == 3:
            version = 3
    out = bytearray()
    out += b"SNAPCNT%d\n\x03\x00\x00" % version
    out += b"z" + vb(c.blocksize) + b"x" + vb(c.blockmax)
    if version == 3:
        out += b"y" + vb(c.hashsize)
    out += b"c" + HASHK_INV[c.hash] + c.hashseed
    if c.prevhash is not None:
        out += b"C" + HASHK_INV[c.prevhash] + c.prevhashseed
    for m in c.maps:
        out += b"M" + bs(m["name"]) + vb(m["pos"]) + vb(m["total"]) + vb(m["free"]) + bs(m["uuid"])
    for p in c.parities:
        if version == 3:
            out += b"Q" + vb(p["level"]) + vb(p["total"]) + vb(p["free"]) + vb(len(p["splits"]))
            for s in p["splits"]:
                out += bs(s["path"] or b"") + bs(s["uuid"]) + vb(s["size"] or 0)
        else:
            out += b"P" + vb(p["level"]) + vb(p["total"]) + vb(p["free"]) + bs(p["splits"][0]["uuid"])
    order = list(c.holes_seen) + [d for d in range(len(c.maps)) if d not in c.holes_seen]
    for di in order:
        for f in c.files:
            if f.disk != di:
                continue
            out += b"f" + vb(di) + vb(f.size) + vb(f.mtime_sec)
            out += vb(0 if f.mtime_nsec == NSEC_INVALID else f.mtime_nsec + 1)
            out += vb(f.inode) + bs(f.sub)
            i = 0
            n = len(f.blocks)
            while i < n:
                pos, st, _h = f.blocks[i]
                j = i + 1
                while j < n and f.blocks[j][1] == st and f.blocks[j][0] == pos + (j - i):
                    j += 1
                out += _STATE2TAG[st] + vb(pos) + vb(j - i)
                for k in range(i, j):
                    out += f.blocks[k][2]
                i = j
        for l in c.links:
            if l["disk"] == di:
                out += (b"s" if l["kind"] == "symlink" else b"a") + vb(di) + bs(l["sub"]) + bs(l["linkto"])
        for d in c.dirs:
            if d["disk"] == di:
                out += b"r" + vb(di) + bs(d["sub"])
        if di in c.holes_seen or di in c.deleted:
            out += b"h" + vb(di)
            dm = c.deleted.get(di, {})
            flags = [p in dm for p in range(c.blockmax)]
            for a, b_, isdel in _runs(flags):
                out += vb(b_ - a)
                if isdel:
                    out += b"o"
                    for p in range(a, b_):
                        out += dm[p]
                else:
                    out += b"O"
    out += b"i" + vb(c.info_oldest)
    for a, b_, v in _runs(c.info[:c.blockmax]):
        out += vb(b_ - a)
        if v is None:
            out += vb(0)
        else:
            t, bad, rehash, just = v
            out += vb(1 | (2 if bad else 0) | (4 if rehash else 0) | (8 if just else 0))
            out += vb((t - c.info_oldest) & 0xFFFFFFFF)
    out += b"N"
    out += crc32c(bytes(out)).to_bytes(4, "little")
    return bytes(out)


def check_map_invariants(c):
    """Structural invariants of C06: returns a list of problem strings (empty = fine)."""
    probs = []
    used = {}
    for f in c.files:
        nb = (f.size + c.blocksize - 1) // c.blocksize
        if len(f.blocks) != nb:
            probs.append("file %r has %d blocks mapped, needs %d" % (f.sub, len(f.blocks), nb))
        last = -1
        for i, (pos, st, h) in enumerate(f.blocks):
            if pos <= last:
                probs.append("file %r block %d position %d not increasing (prev %d)" % (f.sub, i, pos, last))
            last = pos
            if pos >= c.blockmax:
                probs.append("file %r block %d position %d >= blockmax %d" % (f.sub, i, pos, c.blockmax))
            k = (f.disk, pos)
            if k in used:
                probs.append("disk %d position %d shared by %r and %r" % (f.disk, pos, used[k], f.sub))
            used[k] = f.sub
    for d, dm in c.deleted.items():
        for pos in dm:
            if (d, pos) in used:
                probs.append("disk %d position %d is both deleted and used by %r" % (d, pos, used[(d, pos)]))
    if len(c.info) != c.blockmax:
        probs.append("info covers %d of %d" % (len(c.info), c.blockmax))
    else:
        for f in c.files:
            for (pos, st, _h) in f.blocks:
                if st == BLK and pos < len(c.info) and c.info[pos] is None:
                    probs.append("position %d has a synced block but no info" % pos)
                    break
    names = [m["name"] for m in c.maps]
    if len(set(names)) != len(names):
        probs.append("duplicate disk names in map")
    poss = [m["pos"] for m in c.maps]
    if len(set(poss)) != len(poss):
        probs.append("duplicate disk positions in map")
    return probs
