"""Known-findings matcher.  /verif/known_findings.json is committed and never
written at run time.  An entry: {id, property, key, what, status: open|fixed, commit?}.
`key` is a diagnosis key computed by an oracle from the witness (a mechanism, never
a case number); matching is exact on (property, key).  Fixed entries suppress nothing."""
import json
import os

from . import build

_F = None


def load():
    global _F
    if _F is None:
        p = os.path.join(build.VERIF, "known_findings.json")
        try:
            with open(p) as f:
                _F = json.load(f)["findings"]
        except FileNotFoundError:
            _F = []
    return _F


def _match1(prop, key):
    for f in load():
        if f.get("status") == "open" and f["property"] == prop and f["key"] == key:
            return f
    return None


def match(prop, key):
    f = _match1(prop, key)
    if f is not None or not isinstance(key, str):
        return f
    # a witness may show several mechanisms at once ("class/mech1+mech2", one per differing block of a file): it is a
    # known finding only if EVERY component is one
    if "/" in key and "+" in key:
        head, tail = key.split("/", 1)
        parts = [_match1(prop, head + "/" + t) for t in tail.split("+")]
        if parts and all(p is not None for p in parts):
            return parts[0]
    return None


def by_id(fid):
    for f in load():
        if f["id"] == fid:
            return f
    return None
