#!/usr/bin/python3
"""Generates /verif/MANIFEST.json from the table below (run: /usr/bin/python3 -m vf.manifest)."""
import json
import os
import sys

HERE = os.path.dirname(os.path.dirname(os.path.abspath(__file__)))

# id: (level, technique, level text, level note)   -- only checks that exist
CHECKS = {
    "C02": ("exploration",
            "runtime monitor: direct calls of every exported parity kernel under guard pages/canaries + ASan/UBSan builds, oracle = GF(2^8) matrix product from the definition",
            "Every kernel variant the CPU runs is executed on a complete per-disk byte basis (every value in every SIMD lane, every column 0..250) plus dense random data for every nd 1..251 and sizes 64..4160 (thorough 256 KiB, memcheck), and every exported table entry is compared with the field definition (that sub-space is exhaustive). Parity is linear per byte position, so basis+random is a complete input basis for linear kernels and a complete table sweep for lookup kernels; what is not covered is sizes beyond those run.",
            "Trusts the harness's own shift-xor multiply and the matrix definition re-implemented from the documentation; kernels the CPU cannot run are reported as skipped."),
    "C03": ("exploration",
            "runtime monitor: recovery kernels run on reference-encoded stripes with garbage in failed blocks under guard pages/ASan; all minors of the exported generator tables by DFS elimination",
            "All failure sets and all parity choices for nd 1..8 x np 1..6 (+z) through raid_rec, raid_data and each exported decoder variant; sampled sets for larger nd (thorough: every nd to 251); raid_check/raid_scan acceptance and rejection; determinants of every square minor of order 1..4 (quick) and 1..6 (thorough, 3.8e11 minors) of the exported tables.",
            "Stripes are encoded by the harness's own reference, not by the code under test. raid_scan uniqueness only asserted for whole-block random garbage."),
    "C01": ("exploration",
            "runtime monitor: harness-owned version store (bytes+mtime snapshot at sync time) compared with the data disks after damage+fix, fix/check exit status and summary tags; plain and ASan/UBSan builds",
            "Random configurations and sync histories ending in a clean sync, then damage plans bounded by the parity count (whole devices, or <= N blocks of every stripe chosen from the decoded block map), then fix + check; thorough enumerates ALL device subsets of size <= N for arrays with nd+np <= 7. The oracle never trusts the tool: expected bytes, mtimes, link targets come from the harness's own record of what it wrote. Damage kinds include links re-pointed to a prefix / extension of the recorded target or replaced by plain files or independent copies.",
            "Sampled configurations/histories. One content copy outside the data disks always survives. Undetectable damage (truncated-hash collisions) is screened out with the frozen reference hash. Open finding F11 (unaligned truncated parity with format-2 content) is reported as KNOWN-FINDING."),
    "C04": ("exploration",
            "runtime monitor: one corruption at a time predicted from the independently decoded block map, compared with error:/parity_error: log tags, exit status and bad marks (status -G + decoded info words); negative control on the undamaged array first",
            "Every block of every file and every parity block of small arrays (sampled above 40 per array in quick), 5 corruption shapes, swaps, combinations within and across stripes, for check, check -a and scrub plans full/new/100%/bad; the predicted set of (position, disk, file, file position) and (position, level) must equal the reported set, the status must fail, and scrub must mark exactly the affected stripes.",
            "Arrays are sampled; reduced hash sizes and hash migration are in the configuration space. Collisions under truncated hashes are screened with the frozen reference hash and counted trivial. Strategy log lines (parity_error:...:hash) are not treated as location claims."),
    "C05": ("exploration",
            "runtime monitor with a harness-owned version store: content file decoded before fix, data dirs snapshot before/after, fix tags and exit status; every recorded file must hold the recorded version's bytes or be reported unrecoverable; violations are keyed by a diagnosis of the witness block (state, recorded hash vs frozen-reference hash of new / old occupant bytes)",
            "Histories with complete, partial (-S/-B), killed-after-parity syncs, stripes skipped because a file of the stripe is rewritten/removed/touched between scan and sync (--test-run), copy-detected files, and files replaced at the same position (the shape of the hand-found defects); then detectable damage on 0..nd+np devices; then fix with and without -f/-d/-m/-e. Oracle: never wrong bytes under a recorded name unless reported, never status:recovered with other bytes, nothing unknown to the content file or outside -d written, exit status reflects unrecoverable reports. A separate family marks stripes bad (silent damage + scrub), lets the user change stripe mates and damaged files, and runs fix -e / -b: files changed after the sync and files without a bad block must keep bytes, size and time-stamp.",
            "Only detectable damage; hash size 16. Files fix did not touch are not attributed to fix. Open findings F5, F21 and F23 (heuristics for never-synced CHG blocks) are reported as KNOWN-FINDING by mechanism key."),
    "C06": ("exploration",
            "runtime monitor: independent content-file decoder + GF(2^8) parity oracle over a harness-owned version store, applied after every command of random histories (plain and ASan/UBSan builds)",
            "After every single command of random histories (syncs of all kinds incl. partial, forced, pre-hash, autosave, kill-after-sync; scrub; fix after random damage; rehash; touch; disk removal/addition leaving position holes) each on-disk content file is decoded independently, the block-map invariants are asserted and every stripe whose blocks are all recorded synced is recomputed from the version store and compared with the parity files at the offset given by the recorded split sizes. This is the right level because the property is a state invariant quantified over histories: an oracle after each step over thousands of sampled histories observes exactly the state the property talks about. Scripted motifs walk the REP/CHG/DELETED corner states, and run fix -e / -b on a bad-marked stripe one of whose files the user rewrote.",
            "Histories are sampled (300 quick / 6000 thorough), not enumerated. Damage injected by the harness itself is tolerated (fix must only not break more). Durability ordering (fsync before content) is observed and reported but not judged: the property does not state it and a process kill cannot expose it."),
    "C07": ("fault_enumeration",
            "fault enumeration over kill points: LD_PRELOAD shim numbers every state-changing system call of sync/fix and kills the process before/after/in the middle of call k, or raises SIGINT at the j-th parity write; oracles = data snapshot diff, content loadability, version-store recovery test, resume sync + parity oracle + recovery + check, twin comparison for fix",
            "Every state-changing call on data/parity/content files of sync and of fix is a kill point in three modes (all of them in thorough, stratified in quick), plus SIGINT at every parity write and kills after each content rename with slowed parity writers. After each interruption the properties' own clauses are evaluated: data untouched, a content file loads, earlier files recoverable meanwhile (adds-only), a second sync re-establishes parity validity and recoverability; for fix, a second run converges to the uninterrupted twin's tree. Between the interruption and the resume old data may come back and pending files (copies above all) may be re-timed.",
            "Kill = process death, page cache survives. Hash size 16 only (reduced hash sizes cannot represent the special ZERO hash the adds-only guarantee relies on; documented limitation). Open findings F15, F16, F17, F22 are reported as KNOWN-FINDING by mechanism key."),
    "C08": ("fault_enumeration",
            "fault enumeration over I/O calls: LD_PRELOAD shim fails the read/write of an addressed (file, block offset) with EIO/ENOSPC during sync and scrub; oracles = exit status and summary tags, independently decoded content (block states, bad marks), status -G, repair sequence + parity oracle, comparison with the fault-free twin",
            "Every data-file read and parity read/write of sync and scrub on small arrays is a fault point (first/middle/last and the last cache-depth stripes always; all of them in thorough), single and multiple faults, io-cache 1/3/8/default. For each: failing status + diagnostic, stripe not recorded synced-and-healthy, visible in status, repaired by fix -e / scrub -p bad / next sync, every other stripe as in the fault-free twin and valid under the parity oracle. Scrub is also run with one fault in EVERY touched stripe (full plan and -p 1 -o 0), so that no healthy stripe triggers the save.",
            "Faults are injected at the libc boundary once per (file, offset). Single split per level and hash size 16 here. Open findings F3/F3b (failed parity write leaves the stripe recorded synced) are reported as KNOWN-FINDING; reader-side and scrub faults are fully judged."),
    "C09": ("fault_enumeration",
            "runtime monitor: one ASan/UBSan process per content-file mutant (bits, truncations, bytes, field-aware varints/tags) with unchanged-state oracle; kill enumeration over every content-file system call through the LD_PRELOAD shim with old-or-new-version oracle and an ordering spec on the recorded event log",
            "Fault enumeration: every single bit and every truncation length of content files of 3 (quick) / 12 (thorough) shapes covering format 2 and 3 and all record kinds, plus field-aware damage aimed at length/count/position fields; each mutant is one process under ASan+UBSan and must be rejected with nothing modified. Every content-file system call of test-rewrite/touch/sync is a kill point (before/after/mid-write) for 1..7 copies; each copy must remain a complete old or new version. The save protocol (O_EXCL tmp, fsync, re-read to EOF, rename) is checked on every recorded event log. Crafted valid files whose stored CRC ends with ff/00/01 (ffff/0000 in thorough) are cut by exactly those bytes and offered to every command.",
            "Kill = process death, not power loss (fsync is checked only as an ordering event). Multi-byte random damage passing the CRC by chance (2^-32) would be reported as accepted. Mutation positions for byte-value mutants are strided in quick."),
    "C10": ("exploration",
            "runtime monitor: byte comparison of content files before/after test-rewrite under a frozen clock, list/status dumps per content copy compared with an independent decoder, plus encoder-built content files with boundary values fed to the real loader/writer",
            "Reached states (interrupted and partial syncs, bad/rehash/just-synced marks, holes, links, empty dirs, arbitrary-byte names, all hash sizes, both format versions) and constructed states (values at varint boundaries, sizes to 2^40, inode 2^64-1, nsec invalid/0/max, deleted runs, long and short runs) must round-trip byte-exactly through load+save, print exactly the decoded values in list -l / status -G -l, and be independent of which copy is read first. Across consecutive saves of a history a conservation oracle runs: a block recorded as contained in the parity (synced, or deleted with its hash) may vanish from the next saved state only if its stripe was really synced again (parity oracle), otherwise in-memory state (pending deletions, disk mapping) was lost in the save.",
            "Positions bounded by 2^21+8 (memory). The decoder/encoder pair is my own (self-checked: encode(decode(x)) == x on every tool-written file); constructed files are only claimed valid in the writer's normal form."),
    "C11": ("exploration",
            "runtime monitor with a reference model: the harness performs every file-system operation itself and keeps a model; diff exit status, list -l, independently decoded content (empty dirs, block states) and frozen-reference hashes of every recorded block are compared with the model after each sync",
            "Random operation sequences over several rounds per case, with and without usable inodes, five scan orders, parallel and sequential scan, tmpfs and ext4 scratch. Before each sync diff must exit 2 exactly when the model differs from the last recorded state; after it diff must be clean, list must equal the model, check must pass and every recorded block hash must equal the reference hash of the bytes the harness wrote - which settles 'read again rather than trusted' without trusting the tool. In 40 % of the changing rounds an incomplete sync (-B, -S -B, killed after the parity update) comes first and diff must exit 2 while a stripe holding a file has a block without valid parity.",
            "Sequences are sampled. Hard-link groups are compared up to the choice of which name is recorded as the file. Directory-only changes and symlink time-stamps are outside the documented scope of diff/list."),
    "C12": ("exploration",
            "runtime monitoring with two independent observers per command: before/after snapshot (type, size, mtime, inode, sha-256) of data, parity, content, pool and array root, and strace -f of the real binary reduced to file-system-changing system calls; both compared with a per-command table of allowed targets and with fix's own fixed/status tags",
            "Each command x option combination is run on healthy, unsynced, damaged and partially lost arrays; every changed path and every mutating system call must fall into the command's documented set (read-only commands: log+lock only; scrub: +content; sync: +parity, never data; fix: only paths it reports, never content; pool: pool dir only; touch: content + sub-second part of zero time-stamps). A separate state kind damages stripes beyond the redundancy, lets a plain fix leave NAME.unrecoverable copies and then runs restricted and filtered fixes over them (one range computed to open such a copy without finishing it).",
            "Sampled states and option combinations (ranged commands draw -S/-B from the array size; every non-healthy case runs a ranged fix, one of them ending inside an existing file that lies behind a missing one). Another hard-link name of a file fix reports changes with it and is allowed. atime not observed. strace sees system calls, so libc buffering cannot hide a write; the snapshot sees effects, so an unparsed system call cannot hide a change. Open finding F25 (restricted fix drops the .unrecoverable marker of a file whose bad block it skipped) is reported as KNOWN-FINDING by mechanism key."),
    "C13": ("exploration",
            "runtime monitoring of schedules: differential runs across io-cache depths and seeded schedule perturbation (source hooks), ThreadSanitizer/ASan on io-ring and hostile scan workloads, offline checker of the io.c hook event trace (slot ownership, exactly-once, order), watchdog + SIGINT for termination",
            "From one restored image sync/scrub are run single-threaded and with 3..128 ring slots under seeded yields/sleeps injected between critical sections; parity bytes, decoded state and error sets must equal the single-thread reference. Every run's hook trace (one atomic sequence counter) is checked for overlapping slot ownership, positions processed exactly once and in order, and worker silence after join. TSan (real SIMD and portable-C builds) and ASan watch the same workloads plus a scan workload built to hit the copy-detection window. Evidence reports events, hand-overs and distinct interleavings seen.",
            "Interleavings are sampled, not enumerated: the exhaustive exploration of a ring-protocol model named in the property's observe_at is model checking and is not done (DESIGN.md section 6). Termination means 'ended within the watchdog on every run'. State comparison ignores free-space counters and inode numbers. Scenarios include stripes skipped by errors during sync (files removed/changed between scan and sync); a scan differential compares the scan: tags of diff under the sequential scanner and under the per-disk scan threads with perturbation. Open finding F24 (copy detection of a file whose source is updated in the same scan depends on scan-thread order) is reported as KNOWN-FINDING; runs whose scan result differs from the reference are not compared further."),
    "C14": ("exploration",
            "runtime monitor: each interlock trigger is produced on a restored image, sync is run without and with the override, and the bytes/sizes of every content and parity file plus the directory listings are compared before/after; lock exclusion is tested by holding a first command inside its run with a shim delay while a second command is started",
            "Triggers: all files of a disk missing / rewritten, a non-empty file emptied, a parity file truncated below the required size (every level in turn, emptied completely or cut at aligned and unaligned lengths, any split), blocksize / hashsize changed in the configuration, a recorded disk dropped from the configuration, lock held by another command; alone and mixed with ordinary pending changes, on every disk / level. Refusal must leave every content and parity byte untouched; with the override (or restored configuration, or after the other command ended) the same sync must proceed.",
            "Sampled arrays; 'parity smaller' is produced by truncation, not deletion. Lock pairs whose delay rule did not fire are not counted."),
    "C15": ("exploration",
            "runtime monitor under a controlled clock: per-stripe last-check times are laid out with the shim's frozen time, the verified set of one scrub is observed from parity read offsets in the shim event log and from the independently decoded info words before/after, and judged against the documented plan rules; snapshots guard parity and data",
            "Random layouts (several scrub batches and syncs at chosen fake times, bad marks from real silent errors, files changed / removed / only touched since the last sync, damaged parity blocks) x plans full/new/bad/percentage+age/default at a chosen 'now'. Selection (bad always, full, new, quota, age limit, oldest first, no unused quota) and book-keeping (refresh and clearing only when verified correct - judged against the set of stripes that are wrong as computed by the harness itself from the version store and the parity oracle, not from the tool's own error tags -, bad only on silent errors, unsynced differences never marked, parity/data untouched) are checked on every run; eventual coverage is decided as bounded progress over 13 default scrubs 11 days apart.",
            "Ties at the limit time may be broken either way (ordering is checked, not a particular choice); 8 s time granularity; hash size 16."),
    "C16": ("exploration",
            "differential monitoring against recorded observations of the reference version: vendored arrays written by the pristine pinned tree are checked and repaired by the current tree; digests, CRCs and parity of stored vectors are recomputed through harnesses linked with the current objects and compared with stored values and frozen reference sources",
            "12 vendored reference arrays (both hash kinds, hash sizes 16/8/4/2, 1..6 parities and z, split layouts, formats 2 and 3, migration in progress, fragmented allocation): check must be clean and fix must reproduce the stored bytes/mtimes/links after removing device subsets (all subsets of size <= N in thorough). 8 seeds x lengths 0..1100 x 2 hash kinds, CRC-32C table and SSE4.2 variants for lengths 0..1100, 180 parity vectors over nd 1..251, np 1..6, both modes. One reference array has map records out of position order (a retired disk's hole taken by a later disk); every reference array is also checked and repaired after a brand-new empty data disk was added to the configuration.",
            "Reference material generated from the pristine pinned tree (arrays and vectors before any fix commit; the 60 reference-written content files of part (c) later, from a build of a worktree of the pinned commit e695936: each is the reference's test-rewrite of a constructed boundary state together with what the reference prints for it; the tree under test must load it, print the same and write it back bit for bit). 'All future versions' is decided one tree at a time."),
    "C17": ("exploration",
            "runtime monitor with a twin array: the same history is applied to a single-file and a split configuration; split files cut at the independently decoded recorded sizes are compared byte for byte with the single-file parity, plus alignment/size-history invariants, the parity oracle and loss-of-a-split recovery",
            "Twin histories with growth and shrinkage across split boundaries, 2..8 splits per level, unaligned per-file limits hit mid-growth, loss of a split or a disk followed by fix, and removal of unused trailing splits from the configuration. After every sync: recorded split sizes block aligned, concatenation equals the single-file parity on every used stripe, only the last used split changes size, C06 oracle holds on the split array.",
            "Limits come from the deterministic --test-parity-limit function. Stripes that hold no file block are excluded from the byte comparison (their parity is unspecified). Open finding F18 is reported as KNOWN-FINDING."),
    "C18": ("exploration",
            "runtime monitor with a reference model of the documented rules (independent glob matcher): direct calls of the real filter functions through a harness linked with the current objects, plus process-level sync/list and fix-under-filter runs compared with the model and with snapshots",
            "Random rule lists (include/exclude, file and directory forms, rooted and unrooted, *, ?, [], [!], escapes) x random paths: ~10^5 (quick) direct evaluations of filter_path/filter_subdir/filter_emptydir against the model; random rule lists x trees synced and listed; fix with -f/-d/-m on damaged arrays must write exactly the selected missing files with the right bytes; recorded symlinks (valid and dangling) that are removed or re-pointed are entries of the selection like any other.",
            "Pattern grammar restricted to forms whose meaning is unambiguous in POSIX and the manual. Empty directories produced by filtering are not judged. Open finding F20 (directory pruning vs 'first match decides') is reported as KNOWN-FINDING."),
    "C19": ("exploration",
            "runtime monitor: decoy files (same name/path, size, time-stamp, other bytes) for copy detection, import directories and duplicate search; after each command every block recorded synced must carry the frozen-reference hash of the bytes the harness wrote, the parity oracle must hold, and fix may only produce recorded versions",
            "Decoys (fully different, or sharing leading/trailing blocks with the original) on the same and other disks with zero and non-zero sub-second stamps, true moves within and across disks, true copies and decoys in -i / --test-import-content directories and as unsynced duplicates in the array, with -h, --force-nocopy and provisional hashes carried over --test-kill-after-sync. A sync that matched a decoy must fail (with -h: no parity byte changes) and must never record a foreign hash; later syncs converge; fix never writes decoy bytes.",
            "Whether copy detection picks a decoy depends on scan order; evidence counts how many were actually matched. Hash sizes 16/8/4/2: decoys are generated collision-free under the truncated hash, arrays whose own blocks collide are counted trivial."),
    "C20": ("exploration",
            "runtime monitor: every derived view (list tags and stdout, dup, status, pool tree) compared with the independently decoded content file and the harness's byte-level model; escaping inverted; per-tag line counts as a forged-line detector",
            "Arrays with hostile and tag-lookalike names, duplicate groups across disks, zero sub-second stamps, pre-existing pool contents, with and without a share prefix. list/dup/status log tags and stdout are parsed back (esc_tag / shell escaping inverted) and must give exactly the recorded names, sizes, links; dup pairs must induce the content-equality partition; the pool dir must hold exactly one resolving link per recorded name with stale links and empty dirs gone and foreign files kept - after the first pool run and after two further runs that follow removals, moves of files and links across disks, file-to-link replacement and retargeted links. dup is also run on arrays left by an interrupted sync: no file with pending blocks may appear in a pair, reported pairs must have equal bytes.",
            "dup asserted only for hash size 16 outside a migration. Open findings F7b/F7c (newline in names on stdout) are reported as KNOWN-FINDING."),
}

ALL = ["C%02d" % i for i in range(1, 21)]
NOT_YET = "check not built yet in this session (planned in DESIGN.md section 3); not claimed until it is silent on the unchanged tree"


def main():
    checks = []
    for pid in ALL:
        if pid not in CHECKS:
            continue
        level, tech, text, note = CHECKS[pid]
        checks.append({
            "property_id": pid,
            "quick_cmd": "./vcheck %s --tier quick" % pid,
            "thorough_cmd": "./vcheck %s --tier thorough" % pid,
            "evidence_file": "/verif/evidence/%s.json" % pid,
            "replay_cmd_template": "./vcheck %s --replay {path}" % pid,
            "engine": "vcheck",
            "level_claimed": {"category": level, "text": text, "design_ref": "DESIGN.md section 3, %s" % pid},
            "level_note": note,
            "technique": tech,
        })
    na = [{"property_id": p, "reason": NOT_YET} for p in ALL if p not in CHECKS]
    hooks_commits = []
    hc = os.path.join(HERE, "hooks_commits.txt")
    if os.path.exists(hc):
        hooks_commits = [l.split()[0] for l in open(hc) if l.strip() and not l.startswith("#")]
    m = {
        "version": 1,
        "setup_cmd": "/usr/bin/python3 -m vf.setup",
        "hooks": {
            "guard": "SNAPRAID_VERIF",
            "enable": "vf/build.py compiles a scratch copy of /repo's working tree with -DSNAPRAID_VERIF (one build per sanitizer family: plain, asan(+ubsan), tsan, and portable-C variants)",
            "baseline_off_cmd": "cd /repo && make -k -j8 check VERBOSE=1",
            "source_commits": hooks_commits,
            "add_only": True,
        },
        "engines": [
            {"name": "vcheck", "path": "/verif/vcheck", "serves_properties": sorted(CHECKS),
             "kind_free_text": "python3 launcher; per-property workload+oracle in vf/checks; C harnesses raidmon/filtmon linked against the current tree; LD_PRELOAD shim for faults/kills/events; compiler sanitizers and valgrind"},
        ],
        "checks": checks,
        "not_applicable": na,
        "notes": "Technique family: runtime monitoring and sanitizers only. Exit 0 held / 1 VIOLATION / 2 INCONCLUSIVE. known_findings.json lists recorded defects.",
    }
    with open(os.path.join(HERE, "MANIFEST.json"), "w") as f:
        json.dump(m, f, indent=1)
        f.write("\n")
    print("MANIFEST.json: %d checks, %d not_applicable" % (len(checks), len(na)))


if __name__ == "__main__":
    main()
