"""Parity oracle: decoded content + version store + parity files -> mismatches.

For every stripe whose allocated blocks are all BLK (no CHG/REP/DELETED), the
expected bytes of every level are computed from the *version store* (never from
the disk) with the generator from gf.py, and compared with the parity files at
the position given by the recorded split sizes."""
import os

from . import gf
from .content import BLK, DELETED


class ParityView:
    """Concatenation view of the split files of one level using recorded sizes."""

    def __init__(self, paths, sizes, blocksize):
        self.paths = paths
        self.sizes = sizes
        self.bs = blocksize
        self._data = {}

    def _file(self, i):
        if i not in self._data:
            try:
                with open(self.paths[i], "rb") as f:
                    self._data[i] = f.read()
            except (FileNotFoundError, TypeError):
                self._data[i] = None
        return self._data[i]

    def locate(self, pos):
        off = pos * self.bs
        n = len(self.sizes)
        for i, sz in enumerate(self.sizes):
            last = (i == n - 1)
            if off < sz or last:
                return i, off
            off -= sz
        return None, None

    def read(self, pos):
        i, off = self.locate(pos)
        if i is None:
            return None
        d = self._file(i)
        if d is None:
            return None
        b = d[off:off + self.bs]
        if len(b) < self.bs:
            return None
        return b


def parity_views(arr, c):
    """Views for each configured level from recorded split sizes (content) and config paths."""
    views = []
    for l in range(arr.nlev):
        paths = arr.ppaths(l)
        rec = None
        for p in c.parities:
            if p["level"] == l:
                rec = p
        if rec is None or rec.get("legacy"):
            sizes = [os.path.getsize(paths[0]) if os.path.exists(paths[0]) else 0]
            paths = paths[:1]
        else:
            sizes = [s["size"] for s in rec["splits"]]
            paths = paths[:len(sizes)] + [None] * max(0, len(sizes) - len(paths))
            if not sizes:
                sizes = [0]
        views.append(ParityView(paths, sizes, c.blocksize))
    return views


def synced_stripes(c):
    """pos -> list of (diskidx, file, blockidx) for stripes with all blocks BLK."""
    out = {}
    for pos, ents in c.stripe_map().items():
        if all(e[4] == BLK for e in ents):
            out[pos] = [(e[0], e[2], e[3]) for e in ents]
    return out


def block_bytes(fs, c, diskidx, f, i, disk_lookup):
    """Bytes of block i of recorded file f from the version store; None when unknown."""
    d = disk_lookup(c.disk_name(diskidx))
    if d is None:
        return None
    data = fs.lookup(d, f.sub, f.size, f.mtime_sec, f.mtime_nsec if f.mtime_nsec >= 0 else 0)
    if data is None:
        return None
    return data[i * c.blocksize:(i + 1) * c.blocksize]


def check_parity(arr, fs, c, positions=None, levels=None):
    """Returns (problems, stats). problems: list of dicts(pos, level, why)."""
    name2idx = {n.encode(): i for i, n in enumerate(arr.disk_names)}
    look = lambda nm: name2idx.get(nm)
    views = parity_views(arr, c)
    mode = "power" if arr.zmode else "cauchy"
    probs = []
    stats = dict(stripes=0, blocks=0, skipped_unknown=0, levels=arr.nlev, stripes_unsynced=0)
    sm = c.stripe_map()
    for pos in sorted(sm):
        if positions is not None and pos not in positions:
            continue
        ents = sm[pos]
        if not all(e[4] == BLK for e in ents):
            stats["stripes_unsynced"] += 1
            continue
        blocks = {}
        unknown = False
        for (di, _k, f, i, _st, _h) in ents:
            b = block_bytes(fs, c, di, f, i, look)
            if b is None:
                unknown = True
                break
            blocks[c.maps[di]["pos"]] = b
        if unknown:
            stats["skipped_unknown"] += 1
            continue
        exp = gf.stripe_parity(blocks, arr.nlev, c.blocksize, mode)
        stats["stripes"] += 1
        stats["blocks"] += len(blocks)
        for l in range(arr.nlev):
            if levels is not None and l not in levels:
                continue
            got = views[l].read(pos)
            if got is None:
                probs.append(dict(pos=pos, level=l, why="parity file too short or missing"))
            elif got != exp[l]:
                nd = sum(1 for a, b in zip(got, exp[l]) if a != b)
                probs.append(dict(pos=pos, level=l, why="parity differs in %d bytes" % nd))
    return probs, stats
