"""setup_cmd: build, from files on disk only, what every check shares (shim, refhash, builds).
Everything is also rebuilt on demand by the checks; this only warms the cache."""
import sys
import os

sys.path.insert(0, os.path.dirname(os.path.dirname(os.path.abspath(__file__))))
from vf import build, refhash  # noqa: E402


def main():
    refhash.lib()
    if os.path.exists(os.path.join(build.VERIF, "shim", "vshim.c")):
        build.shim()
    for v in ("plain", "asan"):
        build.snapraid(v)
    print("setup ok")


if __name__ == "__main__":
    main()
