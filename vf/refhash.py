"""ctypes binding to ref/refhash.c (hash sources frozen from the pinned commit)."""
import ctypes
import os
import subprocess
import hashlib
import fcntl

from . import build

_LIB = None
KIND = {"murmur3": 1, "spooky2": 2, "metro": 3}


def lib():
    global _LIB
    if _LIB is None:
        srcs = [os.path.join(build.VERIF, "ref", n) for n in
                ("refhash.c", "frozen_murmur3.c", "frozen_spooky2.c", "frozen_metro.c")]
        h = hashlib.sha256()
        for s in srcs:
            h.update(open(s, "rb").read())
        os.makedirs(build.CACHE, exist_ok=True)
        out = os.path.join(build.CACHE, "librefhash-%s.so" % h.hexdigest()[:12])
        if not os.path.exists(out):
            lock = open(out + ".lock", "w")
            fcntl.flock(lock, fcntl.LOCK_EX)
            try:
                if not os.path.exists(out):
                    tmp = out + ".tmp%d" % os.getpid()
                    subprocess.check_call(["gcc", "-O2", "-shared", "-fPIC", "-o", tmp, srcs[0]])
                    os.rename(tmp, out)
            finally:
                lock.close()
        _LIB = ctypes.CDLL(out)
        _LIB.refhash.argtypes = [ctypes.c_int, ctypes.c_char_p, ctypes.c_char_p, ctypes.c_size_t, ctypes.c_char_p]
        _LIB.refcrc32c.argtypes = [ctypes.c_uint32, ctypes.c_char_p, ctypes.c_size_t]
        _LIB.refcrc32c.restype = ctypes.c_uint32
    return _LIB


def digest(kind, seed, data, hashsize=16):
    out = ctypes.create_string_buffer(16)
    lib().refhash(KIND[kind], seed, data, len(data), out)
    return out.raw[:hashsize]


def crc32c(data, crc=0):
    return lib().refcrc32c(crc, data, len(data))
