"""Scratch SnapRAID arrays: configuration, command runner, log parsing, file-system
model with a version store, snapshots."""
import glob
import hashlib
import os
import random
import re
import shutil
import signal
import stat
import subprocess
import time

from . import build, content as cnt

BASE_OPTS = ["--test-skip-device", "--test-skip-self", "--no-warnings"]
EPOCH0 = 1_500_000_000
LEVNAMES = ["parity", "2-parity", "3-parity", "4-parity", "5-parity", "6-parity"]


def scratch_root(tag="verif", ext4=False):
    base = "/var/tmp" if ext4 else "/dev/shm"
    if not os.path.isdir(base) or not os.access(base, os.W_OK):
        base = "/var/tmp"
    d = os.path.join(base, "%s.%d.%d" % (tag, os.getpid(), random.getrandbits(24)))
    os.makedirs(d)
    return d


def unesc_tag(b):
    out = bytearray()
    i = 0
    n = len(b)
    while i < n:
        c = b[i]
        if c == 0x5C and i + 1 < n:
            d = b[i + 1]
            if d == ord("n"):
                out.append(10)
            elif d == ord("r"):
                out.append(13)
            elif d == ord("d"):
                out.append(ord(":"))
            elif d == 0x5C:
                out.append(0x5C)
            else:
                out.append(c)
                out.append(d)
            i += 2
        else:
            out.append(c)
            i += 1
    return bytes(out)


def parse_log(data):
    """Return list of tags; each tag = list of unescaped byte fields. Lines that
    are not of the form tag:... are returned as [b'', line]."""
    tags = []
    for line in data.split(b"\n"):
        if not line:
            continue
        if b":" not in line:
            tags.append([b"", line])
            continue
        tags.append([unesc_tag(x) for x in line.split(b":")])
    return tags


class Res:
    def __init__(self):
        self.rc = None
        self.out = b""
        self.err = b""
        self.log = b""
        self.tags = []
        self.san = []
        self.timeout = False
        self.args = []
        self.signal = None
        self.events = None
        self.wall = 0.0

    def tag(self, name):
        nb = name.encode() if isinstance(name, str) else name
        return [t for t in self.tags if t[0] == nb]

    def summary(self, key):
        kb = key.encode()
        for t in self.tags:
            if t[0] == b"summary" and len(t) > 2 and t[1] == kb:
                return t[2:]
        return None

    def brief(self):
        return {"args": [a if isinstance(a, str) else a.decode("latin-1") for a in self.args],
                "rc": self.rc, "timeout": self.timeout,
                "err_tail": self.err[-600:].decode("latin-1"),
                "san": [s[:1500] for s in self.san]}


_SAN_MARK = re.compile(r"(ERROR: AddressSanitizer|ERROR: LeakSanitizer|runtime error:|WARNING: ThreadSanitizer|"
                       r"AddressSanitizer:|ThreadSanitizer:)")


def san_key(report):
    """De-duplication key of a sanitizer report: kind + top frames without line numbers."""
    kind = "san"
    m = re.search(r"(AddressSanitizer|ThreadSanitizer|LeakSanitizer): ([a-zA-Z\- ]+)", report)
    if m:
        kind = m.group(1) + ":" + m.group(2).strip().split(" on ")[0].strip()
    m2 = re.search(r"runtime error: ([^\n]+)", report)
    if m2 and not m:
        kind = "UBSan:" + re.sub(r"0x[0-9a-f]+|\d+", "N", m2.group(1))[:80]
    frames = re.findall(r"#\d+ 0x[0-9a-f]+ in (\S+)", report)
    frames = [f for f in frames if not f.startswith("__") and f not in ("main",)]
    return kind + "@" + ">".join(frames[:3])


class Array:
    def __init__(self, root, nd=3, nlev=1, zmode=False, blocksize_k=1, hashsize=16,
                 ncontent=2, splits=None, extra_conf=(), autosave=None, pool=False,
                 disk_names=None, content_on_data=True, content_subdir=None):
        self.root = root
        self.nd = nd
        self.nlev = nlev
        self.zmode = zmode
        self.bs = blocksize_k * 1024
        self.blocksize_k = blocksize_k
        self.hashsize = hashsize
        self.ncontent = ncontent
        self.splits = splits or [1] * nlev
        self.extra_conf = list(extra_conf)
        self.autosave = autosave
        self.pool = pool
        self.disk_names = disk_names or ["d%d" % (i + 1) for i in range(nd)]
        self.disks = list(range(nd))  # active disk indices (into disk_names), config order
        self.content_on_data = content_on_data
        # content copies kept on data disks live in the disk root, or (content_subdir) in a sub-directory of it
        self.content_subdir = content_subdir
        self.conf = os.path.join(root, "conf")
        self.logn = 0
        os.makedirs(root, exist_ok=True)
        for i in range(nd):
            os.makedirs(self.ddir(i), exist_ok=True)
            if content_subdir:
                os.makedirs(os.path.join(self.ddir(i), content_subdir), exist_ok=True)
        os.makedirs(os.path.join(root, "par"), exist_ok=True)
        os.makedirs(os.path.join(root, "cnt"), exist_ok=True)
        os.makedirs(os.path.join(root, "logs"), exist_ok=True)
        if pool:
            os.makedirs(os.path.join(root, "pool"), exist_ok=True)
        self.write_conf()

    # ---- paths
    def ddir(self, i):
        return os.path.join(self.root, self.disk_names[i])

    def ppaths(self, l):
        return [os.path.join(self.root, "par", "p%d_%d.par" % (l, s)) for s in range(self.splits[l])]

    def all_parity_paths(self):
        return [p for l in range(self.nlev) for p in self.ppaths(l)]

    def cpaths(self):
        out = [os.path.join(self.root, "cnt", "c0.content")]
        k = 1
        # further copies: on data disks first (as recommended), then elsewhere
        for i in self.disks:
            if k >= self.ncontent:
                break
            if self.content_on_data:
                out.append(os.path.join(self.ddir(i), self.content_subdir, "snapraid.content") if self.content_subdir
                           else os.path.join(self.ddir(i), "snapraid.content"))
                k += 1
        while k < self.ncontent:
            out.append(os.path.join(self.root, "cnt", "c%d.content" % k))
            k += 1
        return out

    def write_conf(self, blocksize_k=None, hashsize=None, first_content=0, drop_disks=()):
        lines = []
        for l in range(self.nlev):
            name = LEVNAMES[l]
            if self.zmode and l == 2:
                name = "z-parity"
            lines.append("%s %s" % (name, ",".join(self.ppaths(l))))
        cps = self.cpaths()
        cps = cps[first_content:] + cps[:first_content]
        for c in cps:
            lines.append("content %s" % c)
        for i in self.disks:
            if i in drop_disks:
                continue
            lines.append("data %s %s/" % (self.disk_names[i], self.ddir(i)))
        lines.append("blocksize %d" % (blocksize_k or self.blocksize_k))
        hs = hashsize or self.hashsize
        if hs != 16:
            lines.append("hashsize %d" % hs)
        if self.autosave:
            lines.append("autosave %d" % self.autosave)
        if self.pool:
            lines.append("pool %s" % os.path.join(self.root, "pool"))
        lines.extend(self.extra_conf)
        with open(self.conf, "w") as f:
            f.write("\n".join(lines) + "\n")

    def drop_disk(self, i):
        """Remove data disk i from the configuration (its directory stays)."""
        self.disks.remove(i)
        self.write_conf()

    def add_disk(self):
        """Add a brand new data disk at the end of the configuration; returns its index."""
        i = len(self.disk_names)
        self.disk_names.append("d%d" % (i + 1))
        os.makedirs(self.ddir(i), exist_ok=True)
        self.disks.append(i)
        self.write_conf()
        return i

    # ---- running
    def cmd(self, name, *args, variant="plain", env=None, shim=None, timeout=60,
            stdin=None, conf=None, base_opts=True, strace=None, binary=None):
        """Run `snapraid <name> args`. shim = dict(plan=..., time=..., log=True, count=False)."""
        self.logn += 1
        logp = os.path.join(self.root, "logs", "%04d-%s.log" % (self.logn, name))
        sanp = os.path.join(self.root, "logs", "%04d-san" % self.logn)
        exe = binary or build.snapraid(variant)
        argv = [exe, "-c", conf or self.conf]
        if base_opts:
            argv += BASE_OPTS
        argv += ["-l", logp]
        argv += [a for a in args]
        argv.append(name)
        e = dict(os.environ)
        e.pop("LD_PRELOAD", None)
        e["LC_ALL"] = "C"
        e["TZ"] = "UTC"
        fam = variant.split("-")[0]
        e["ASAN_OPTIONS"] = "detect_leaks=0:exitcode=97:abort_on_error=0:log_path=%s:allocator_may_return_null=1" % sanp
        e["UBSAN_OPTIONS"] = "print_stacktrace=1:log_path=%s:exitcode=97" % sanp
        e["TSAN_OPTIONS"] = "halt_on_error=0:log_path=%s:exitcode=0:second_deadlock_stack=1" % sanp
        pre = []
        evp = None
        if shim is not None:
            so = build.shim()
            if fam == "asan":
                pre.append(build.asan_preload())
            elif fam == "tsan":
                pre.append(build.tsan_preload())
            pre.append(so)
            e["VSHIM_MAP"] = self.shim_map()
            if shim.get("plan"):
                e["VSHIM_PLAN"] = shim["plan"]
            if shim.get("time") is not None:
                e["VSHIM_TIME"] = str(shim["time"])
            if shim.get("log", True):
                evp = os.path.join(self.root, "logs", "%04d-events" % self.logn)
                e["VSHIM_LOG"] = evp
            if shim.get("count"):
                e["VSHIM_COUNT_ONLY"] = "1"
        if pre:
            e["LD_PRELOAD"] = " ".join(pre)
        if env:
            e.update(env)
        if strace:
            argv = ["strace", "-f", "-qq", "-y", "-o", strace, "-e",
                    "trace=%file,%desc,write,pwrite64,ftruncate,fallocate,rename,renameat,renameat2,unlink,unlinkat,"
                    "mkdir,mkdirat,rmdir,link,linkat,symlink,symlinkat,utimensat,futimesat,utimes,fsync,fdatasync,truncate,chmod,fchmod,chown,fchown",
                    "-s", "0"] + argv
        r = Res()
        r.args = argv
        t0 = time.time()
        p = subprocess.Popen(argv, stdout=subprocess.PIPE, stderr=subprocess.PIPE,
                             stdin=subprocess.DEVNULL if stdin is None else subprocess.PIPE,
                             env=e, cwd=self.root, start_new_session=True)
        try:
            r.out, r.err = p.communicate(stdin, timeout=timeout)
        except subprocess.TimeoutExpired:
            r.timeout = True
            try:
                os.killpg(p.pid, signal.SIGKILL)
            except ProcessLookupError:
                pass
            r.out, r.err = p.communicate()
        r.wall = time.time() - t0
        r.rc = p.returncode
        if r.rc is not None and r.rc < 0:
            r.signal = -r.rc
        try:
            with open(logp, "rb") as f:
                r.log = f.read()
        except FileNotFoundError:
            r.log = b""
        r.tags = parse_log(r.log)
        for sp in sorted(glob.glob(sanp + ".*")):
            try:
                txt = open(sp, "r", errors="replace").read()
            except OSError:
                continue
            if _SAN_MARK.search(txt):
                # split TSan multi-report logs
                parts = re.split(r"(?m)^(?==================\n)", txt)
                r.san.extend([q for q in parts if _SAN_MARK.search(q)] or [txt])
        errtxt = r.err.decode("latin-1")
        if _SAN_MARK.search(errtxt) and not r.san:
            r.san.append(errtxt[-6000:])
        if evp:
            r.events = evp
        r.logpath = logp
        return r

    def shim_map(self):
        m = []
        for i in self.disks:
            m.append("data=%s/" % self.ddir(i))
        m.append("parity=%s/" % os.path.join(self.root, "par"))
        for c in self.cpaths():
            m.append("content=%s" % c)
        m.append("lock=%s" % (self.cpaths()[0] + ".lock"))
        # content copies on data disks must win over the data prefix: put them first
        m.sort(key=lambda s: 0 if s.startswith("lock=") else (1 if s.startswith("content=") else 2))
        return ";".join(m)

    # ---- content
    def load_content(self, which=0):
        return cnt.load(self.cpaths()[which])

    def content_bytes(self):
        out = []
        for c in self.cpaths():
            try:
                out.append(open(c, "rb").read())
            except FileNotFoundError:
                out.append(None)
        return out

    def parity_bytes(self):
        out = {}
        for p in self.all_parity_paths():
            try:
                out[p] = open(p, "rb").read()
            except FileNotFoundError:
                out[p] = None
        return out

    def cleanup(self):
        shutil.rmtree(self.root, ignore_errors=True)


# ------------------------------------------------------------------------ fs model

class Clock:
    """Harness-owned monotonic source of distinct modification times."""

    def __init__(self, rng, start=EPOCH0):
        self.rng = rng
        self.t = start

    def next(self, zero_nsec=None):
        self.t += self.rng.randint(1, 50)
        if zero_nsec is None:
            zero_nsec = self.rng.random() < 0.25
        ns = 0 if zero_nsec else self.rng.randint(1, 999_999_999)
        return self.t * 1_000_000_000 + ns


def gen_bytes(rng, n, kind=None):
    if n == 0:
        return b""
    k = kind or rng.choice(["rand", "rand", "rand", "zero", "rep", "text"])
    if k == "zero":
        return bytes(n)
    if k == "rep":
        u = bytes(rng.getrandbits(8) for _ in range(rng.randint(1, 7)))
        return (u * (n // len(u) + 1))[:n]
    if k == "text":
        u = b"The quick brown fox %d\n" % rng.getrandbits(16)
        return (u * (n // len(u) + 1))[:n]
    return rng.getrandbits(8 * n).to_bytes(n, "little")


NAME_ALPHA_PLAIN = "abcdefgh012_-."
NAME_ALPHA_HOSTILE = [b" ", b"\n", b":", b"\\", b"'", b'"', b"*", b"?", b"[", b"]", b"\xc3\xa9", b"\xff", b"\x80",
                      b"$", b"`", b"!", b"#", b"~", b"\t", b"\r", b"&", b"(", b")", b";", b"<", b">", b"|", b"{", b"}"]


def gen_name(rng, hostile=0.2, maxlen=10):
    n = rng.randint(1, maxlen)
    out = bytearray()
    for _ in range(n):
        if rng.random() < hostile:
            out += rng.choice(NAME_ALPHA_HOSTILE)
        else:
            out += rng.choice(NAME_ALPHA_PLAIN).encode()
    s = bytes(out)
    if s in (b".", b"..") or s.startswith(b".") or s.endswith(b"/"):
        s = b"x" + s
    # names the tool itself owns
    if s.startswith(b"snapraid.") or s.endswith((b".lock", b".tmp", b".unrecoverable", b".content")):
        s = b"n" + s.replace(b".", b"_")
    return s


def gen_size(rng, bs, maxblocks=6):
    c = rng.random()
    if c < 0.08:
        return 0
    if c < 0.16:
        return 1
    if c < 0.5:
        k = rng.randint(1, maxblocks)
        return max(0, k * bs + rng.choice([-1, 0, 1]))
    return rng.randint(2, maxblocks * bs)


class FsModel:
    """Performs every file-system change itself and remembers every version it made.

    entries[disk][sub] = ('file', data, mtime_ns) | ('symlink', target) |
                         ('hardlink', target_sub) | ('dir',)
    store[(disk, sub, size, sec, nsec)] = data   (every file version ever written)
    """

    def __init__(self, arr, rng):
        self.arr = arr
        self.rng = rng
        self.clock = Clock(rng)
        self.entries = {i: {} for i in range(len(arr.disk_names))}
        self.store = {}
        self.ambiguous = set()  # store keys written with two different contents (decoys)

    def path(self, disk, sub):
        return os.path.join(os.fsencode(self.arr.ddir(disk)), sub)

    def _remember(self, disk, sub, data, mt):
        k = (disk, sub, len(data), mt // 1_000_000_000, mt % 1_000_000_000)
        if k in self.store and self.store[k] != data:
            self.ambiguous.add(k)
        self.store[k] = data

    def _mkparents(self, disk, sub):
        parts = sub.split(b"/")[:-1]
        cur = b""
        for p in parts:
            cur = cur + b"/" + p if cur else p
            e = self.entries[disk].get(cur)
            if e is not None and e[0] != "dir":
                self.remove(disk, cur)
            full = self.path(disk, cur)
            if not os.path.isdir(full):
                os.mkdir(full)
            self.entries[disk].pop(cur, None)  # no longer an *empty* dir

    def write(self, disk, sub, data, mtime_ns=None, keep_inode=False):
        old = self.entries[disk].get(sub)
        if old is not None and old[0] != "file":
            self.remove(disk, sub)
            old = None
        self._mkparents(disk, sub)
        p = self.path(disk, sub)
        if old is not None and not keep_inode:
            self._detach_links(disk, sub, old)
            os.unlink(p)
        with open(p, "wb") as f:
            f.write(data)
        if mtime_ns is None:
            mtime_ns = self.clock.next()
        os.utime(p, ns=(mtime_ns, mtime_ns))
        self.entries[disk][sub] = ("file", data, mtime_ns)
        self._remember(disk, sub, data, mtime_ns)
        self._remember_links(disk, sub)
        return mtime_ns

    def links_of(self, disk, sub):
        return [s2 for s2, e2 in self.entries[disk].items() if e2[0] == "hardlink" and e2[1] == sub]

    def _remember_links(self, disk, sub):
        """All names of one inode share content and time-stamp; the tool may record any of them as the file."""
        e = self.entries[disk][sub]
        for s2 in self.links_of(disk, sub):
            self._remember(disk, s2, e[1], e[2])

    def _detach_links(self, disk, sub, e):
        """`sub` stops being the inode its hard links point to: the first link becomes the file."""
        links = self.links_of(disk, sub)
        if not links:
            return
        first = links[0]
        self.entries[disk][first] = ("file", e[1], e[2])
        self._remember(disk, first, e[1], e[2])
        for s3 in links[1:]:
            self.entries[disk][s3] = ("hardlink", first)

    def set_mtime(self, disk, sub, mtime_ns=None):
        e = self.entries[disk][sub]
        if mtime_ns is None:
            mtime_ns = self.clock.next()
        os.utime(self.path(disk, sub), ns=(mtime_ns, mtime_ns))
        self.entries[disk][sub] = ("file", e[1], mtime_ns)
        self._remember(disk, sub, e[1], mtime_ns)
        self._remember_links(disk, sub)

    def symlink(self, disk, sub, target):
        if sub in self.entries[disk]:
            self.remove(disk, sub)
        self._mkparents(disk, sub)
        os.symlink(target, self.path(disk, sub))
        self.entries[disk][sub] = ("symlink", target)

    def hardlink(self, disk, sub, target_sub):
        if sub in self.entries[disk]:
            self.remove(disk, sub)
        self._mkparents(disk, sub)
        os.link(self.path(disk, target_sub), self.path(disk, sub))
        self.entries[disk][sub] = ("hardlink", target_sub)
        self._remember_links(disk, target_sub)

    def mkdir(self, disk, sub):
        if sub in self.entries[disk]:
            self.remove(disk, sub)
        self._mkparents(disk, sub)
        os.mkdir(self.path(disk, sub))
        self.entries[disk][sub] = ("dir",)

    def remove(self, disk, sub):
        e = self.entries[disk].pop(sub, None)
        p = self.path(disk, sub)
        if e is None:
            return
        if e[0] == "dir":
            os.rmdir(p)
        else:
            os.unlink(p)
        if e[0] == "file":
            # hard links to it become files of their own in the model
            self._detach_links(disk, sub, e)
        self._note_empty_parents(disk, sub)

    def _note_empty_parents(self, disk, sub):
        # a parent that became empty is now an empty dir entry
        if b"/" in sub:
            par = sub.rsplit(b"/", 1)[0]
            if not os.listdir(self.path(disk, par)):
                self.entries[disk][par] = ("dir",)

    def rename(self, disk, sub, disk2, sub2):
        """Move within a disk (rename) or across (copy preserving mtime + delete)."""
        e = self.entries[disk][sub]
        if sub2 in self.entries[disk2]:
            self.remove(disk2, sub2)
        self._mkparents(disk2, sub2)
        if disk == disk2:
            os.rename(self.path(disk, sub), self.path(disk2, sub2))
            self.entries[disk].pop(sub)
            self.entries[disk2][sub2] = e
            if e[0] == "file":
                self._remember(disk2, sub2, e[1], e[2])
                for s3, e3 in list(self.entries[disk].items()):
                    if e3[0] == "hardlink" and e3[1] == sub:
                        self.entries[disk][s3] = ("hardlink", sub2)
            elif e[0] == "hardlink":
                te = self.entries[disk].get(e[1])
                if te is not None and te[0] == "file":
                    self._remember(disk2, sub2, te[1], te[2])
            self._note_empty_parents(disk, sub)
        else:
            assert e[0] == "file"
            self.write(disk2, sub2, e[1], e[2])
            self.remove(disk, sub)

    def copy(self, disk, sub, disk2, sub2):
        e = self.entries[disk][sub]
        self.write(disk2, sub2, e[1], e[2])

    def adopt_touch(self):
        """After `snapraid touch`: files whose sub-second time-stamp was zero got a new one from
        the tool; read it back so that the version store keeps identifying versions."""
        n = 0
        for d, es in self.entries.items():
            for s, e in list(es.items()):
                if e[0] != "file":
                    continue
                try:
                    st = os.lstat(self.path(d, s))
                except OSError:
                    continue
                if st.st_mtime_ns != e[2] and st.st_mtime_ns // 1_000_000_000 == e[2] // 1_000_000_000 and st.st_size == len(e[1]):
                    es[s] = ("file", e[1], st.st_mtime_ns)
                    self._remember(d, s, e[1], st.st_mtime_ns)
                    self._remember_links(d, s)
                    n += 1
        return n

    def clear_disk(self, disk):
        """Remove every entry of a disk through the model (parents that become empty included)."""
        for _ in range(64):
            if not self.entries[disk]:
                break
            for s_ in sorted(self.entries[disk], key=lambda x: -len(x)):
                if s_ in self.entries[disk]:
                    self.remove(disk, s_)

    def files(self, disk=None):
        out = []
        for d in ([disk] if disk is not None else self.entries):
            for s, e in self.entries[d].items():
                if e[0] == "file":
                    out.append((d, s))
        return out

    def lookup(self, disk, sub, size, sec, nsec):
        return self.store.get((disk, sub, size, sec, nsec))

    def clone_entries(self):
        return {d: dict(es) for d, es in self.entries.items()}


def populate(fs, rng, nfiles=12, hostile=0.15, maxblocks=5, links=True, dirs=True, disks=None):
    """Random tree on the model's disks."""
    arr = fs.arr
    disks = disks if disks is not None else arr.disks
    made = []
    dirnames = [b""]
    for _ in range(rng.randint(0, 3)):
        base = rng.choice(dirnames)
        dn = gen_name(rng, hostile, 6)
        dirnames.append(base + b"/" + dn if base else dn)
    for _ in range(nfiles):
        d = rng.choice(disks)
        base = rng.choice(dirnames)
        nm = gen_name(rng, hostile)
        sub = base + b"/" + nm if base else nm
        if sub in fs.entries[d] or any(k.startswith(sub + b"/") for k in fs.entries[d]):
            continue
        if any(sub.startswith(k + b"/") and fs.entries[d][k][0] != "dir" for k in fs.entries[d]):
            continue
        fs.write(d, sub, gen_bytes(rng, gen_size(rng, arr.bs, maxblocks)))
        made.append((d, sub))
    if links and made:
        for _ in range(rng.randint(0, 3)):
            d, target = rng.choice(made)
            nm = gen_name(rng, hostile)
            if nm in fs.entries[d] or any(k.startswith(nm + b"/") for k in fs.entries[d]):
                continue
            k = rng.random()
            if k < 0.4:
                fs.symlink(d, nm, target.split(b"/")[-1] if b"/" not in target else b"./" + target)
            elif k < 0.55:
                fs.symlink(d, nm, b"/nonexistent/" + gen_name(rng, 0.0))
            elif fs.entries[d].get(target, ("",))[0] == "file":
                fs.hardlink(d, nm, target)
    if dirs:
        for _ in range(rng.randint(0, 2)):
            d = rng.choice(disks)
            nm = gen_name(rng, hostile, 6)
            if nm in fs.entries[d] or any(k.startswith(nm + b"/") for k in fs.entries[d]):
                continue
            fs.mkdir(d, nm)
    return made


# ------------------------------------------------------------------------ snapshots

def snapshot(path, with_bytes=True):
    """dict relpath(bytes) -> (type, size, mtime_ns, inode, digest|target)."""
    out = {}
    bpath = os.fsencode(path)
    if not os.path.lexists(bpath):
        return out
    if not os.path.isdir(bpath):
        st = os.lstat(bpath)
        with open(bpath, "rb") as f:
            dg = hashlib.sha256(f.read()).hexdigest()
        out[b""] = ("file", st.st_size, st.st_mtime_ns, st.st_ino, dg)
        return out
    for root, dirs, files in os.walk(bpath):
        rel = root[len(bpath):].lstrip(b"/")
        for d in list(dirs):
            p = os.path.join(root, d)
            r = rel + b"/" + d if rel else d
            st = os.lstat(p)
            if stat.S_ISLNK(st.st_mode):
                out[r] = ("symlink", 0, st.st_mtime_ns, st.st_ino, os.readlink(p))
            else:
                out[r] = ("dir", 0, st.st_mtime_ns, st.st_ino, None)
        for f in files:
            p = os.path.join(root, f)
            r = rel + b"/" + f if rel else f
            st = os.lstat(p)
            if stat.S_ISLNK(st.st_mode):
                out[r] = ("symlink", 0, st.st_mtime_ns, st.st_ino, os.readlink(p))
            elif stat.S_ISREG(st.st_mode):
                dg = None
                if with_bytes:
                    try:
                        with open(p, "rb") as fh:
                            dg = hashlib.sha256(fh.read()).hexdigest()
                    except OSError:
                        dg = "unreadable"
                out[r] = ("file", st.st_size, st.st_mtime_ns, st.st_ino, dg)
            else:
                out[r] = ("other", 0, st.st_mtime_ns, st.st_ino, None)
    return out


def snap_diff(a, b, ignore_dir_mtime=True):
    """List of (path, what, before, after)."""
    out = []
    for k in sorted(set(a) | set(b)):
        x = a.get(k)
        y = b.get(k)
        if x is None:
            out.append((k, "created", None, y))
        elif y is None:
            out.append((k, "removed", x, None))
        elif x != y:
            if ignore_dir_mtime and x[0] == "dir" and y[0] == "dir" and x[3] == y[3]:
                continue
            out.append((k, "changed", x, y))
    return out
