"""C19 Move, copy and import shortcuts never accept unverified data."""
import os
import random
import shutil

from .. import arr as A
from .. import content as cnt
from .. import evidence, par, parity as P, refhash, scen
from ..content import BLK
from .c01 import Template, build_synced_array

RULE = ("trees with decoys: files sharing name (or path), size and time-stamp with a fully hashed file on the same or another disk but "
        "holding other content, with zero and non-zero sub-second time-stamps; true moves within a disk (inode kept, --test-fake-uuid) "
        "and across disks; decoys and true copies in import directories (-i and --test-import-content) and as duplicates elsewhere in "
        "the array; with and without -h (pre-hash) and --force-nocopy; provisional hashes carried over --test-kill-after-sync. Oracle: "
        "after every sync, every block recorded synced has the frozen-reference hash of the bytes the harness wrote and the C06 parity "
        "oracle holds; a sync that met a decoy fails (and with -h no parity byte changes); after fix, every recorded file under its name "
        "has the bytes of the recorded version or is reported unrecoverable - bytes from a decoy never appear. Move mode, every other case: two data disks are replaced (UUID to other UUID) while two same-size same-stamp files come back with each other's inode number. distinct = (tree, commands).")


def _unmatched(res):
    from .. import findings
    return len([v for v in res["violations"] if findings.match("C19", v[0]) is None])


def hashes_ok(a, fs, c, V, label, rep):
    """Every BLK block hash equals the reference hash of the model's bytes. Returns number verified."""
    n = 0
    name2idx = {nm.encode(): i for i, nm in enumerate(a.disk_names)}
    for f in c.files:
        d = name2idx[c.disk_name(f.disk)]
        data = fs.lookup(d, f.sub, f.size, f.mtime_sec, f.mtime_nsec if f.mtime_nsec >= 0 else 0)
        if data is None:
            continue
        for i, (pos, st, h) in enumerate(f.blocks):
            if st != BLK:
                continue
            inf = c.info[pos] if pos < len(c.info) else None
            kind, seed = (c.prevhash, c.prevhashseed) if (inf and inf[2] and c.prevhash) else (c.hash, c.hashseed)
            want = refhash.digest(kind, seed, data[i * c.blocksize:(i + 1) * c.blocksize], c.hashsize)
            n += 1
            if h != want:
                V.append(("synced-block-with-foreign-hash", "%s: %s:%r block %d is recorded synced with hash %s but its bytes hash to %s" %
                          (label, a.disk_names[d], f.sub, i, h.hex(), want.hex()), rep))
                return n
    return n


def recorded_hashes(a, fs, c):
    """{truncated hash: bytes} of every recorded block; None when two different blocks collide under the
    configured (reduced) hash size - such an array cannot tell them apart by design and the case is trivial."""
    out = {}
    name2idx = {nm.encode(): i for i, nm in enumerate(a.disk_names)}
    for f in c.files:
        d = name2idx[c.disk_name(f.disk)]
        data = fs.lookup(d, f.sub, f.size, f.mtime_sec, f.mtime_nsec if f.mtime_nsec >= 0 else 0)
        if data is None:
            continue
        for i, (pos, st, h) in enumerate(f.blocks):
            blk = data[i * c.blocksize:(i + 1) * c.blocksize]
            if out.setdefault(h, blk) != blk:
                return None
    return out


def gen_decoy(rng, n, c, taken, orig=None):
    """Random bytes none of whose blocks collides with a recorded block under the configured hash size. With orig, half of
    the decoys are partial: they share some leading or trailing blocks with the original and differ elsewhere."""
    for _ in range(50):
        data = A.gen_bytes(rng, n, "rand")
        nb = (n + c.blocksize - 1) // c.blocksize
        if orig is not None and nb >= 2 and rng.random() < 0.5:
            k = rng.randint(1, nb - 1) * c.blocksize
            data = (orig[:k] + data[k:]) if rng.random() < 0.7 else (data[:k] + orig[k:])
        ok = True
        for i in range(0, max(n, 1), c.blocksize):
            blk = data[i:i + c.blocksize]
            h = refhash.digest(c.hash, c.hashseed, blk, c.hashsize)
            if h in taken and taken[h] != blk:
                ok = False
                break
        if ok:
            return data
    raise scen.CaseError("no collision-free decoy found")


def run_case(case):
    seed, idx, tier = case
    rng = random.Random("c19-%d-%d" % (seed, idx))
    variant = "asan" if idx % 4 == 3 else "plain"
    res = dict(key=None, violations=[], counters={}, nontrivial=False)
    # reduced hash sizes: decoys are generated collision-free under the truncated hash (gen_decoy), arrays whose own
    # blocks collide are trivial (recorded_hashes)
    hs = rng.choice([16, 16, 8, 4, 2]) if idx % 4 != 3 else rng.choice([16, 8, 4, 2, 2])
    if idx % 8 == 3 and rng.random() < 0.6:
        hs = 2  # import mode under the ASan build: the shortest hash the import tables have to cope with
    if idx % 8 == 7 and rng.random() < 0.8:
        hs = 16  # the pending-import-decoy mode mostly runs with full hashes (past hashes are only meaningful there)
    cfg = scen.gen_config(rng, max_lev=2, force=dict(nd=rng.randint(2, 4), hashsize=hs), allow_splits=False)
    opts = ["--test-fake-uuid"] if idx % 2 == 0 else []
    # move mode, every other case: the first two data disks are REPLACED before the last sync (their fake UUIDs change from one
    # non-empty value to another: the data lines are exchanged) and two same-size, same-stamp files come back from the
    # backup with each other's inode number - an inode number of the old file-system identifies nothing on the new one
    disk_replaced = idx % 16 == 2
    if disk_replaced:
        cfg["nlev"] = 2
        cfg["content_on_data"] = False
    a, fs = scen.make(rng, cfg, "c19")
    V = res["violations"]
    hist = []
    try:
        A.populate(fs, rng, nfiles=rng.randint(6, 14), hostile=0.1, maxblocks=4)
        if disk_replaced:
            tn_ = rng.randint(1, 3 * a.bs)
            tt_ = fs.clock.next()
            fs.write(a.disks[0], b"twin-a", A.gen_bytes(rng, tn_, "rand"), mtime_ns=tt_)
            fs.write(a.disks[0], b"twin-b", A.gen_bytes(rng, tn_, "rand"), mtime_ns=tt_)
        # some zero-nanosecond originals
        for k in range(2):
            fs.write(rng.choice(a.disks), b"zo%d/zname%d" % (k, k), A.gen_bytes(rng, rng.randint(1000, 4000), "rand"), mtime_ns=fs.clock.next(zero_nsec=True))
        r = a.cmd("sync", *opts, variant=variant)
        if r.rc != 0:
            raise scen.CaseError("setup sync failed")
        mode = ["copy-decoy", "copy-decoy-prehash", "move", "import", "duplicate", "nocopy", "killaftersync", "pending-import-decoy"][idx % 8]
        c0 = a.load_content()
        taken = recorded_hashes(a, fs, c0)
        if taken is None:
            res["counters"]["trivial_truncated_hash_collision"] = 1
            res["key"] = "collision|%s" % sorted((k, str(v)) for k, v in cfg.items())
            return res
        res["counters"]["hashsize_%d" % cfg["hashsize"]] = 1
        rep = {"case": list(case), "cfg": cfg, "mode": mode, "opts": opts}
        originals = [(d, s) for (d, s) in fs.files() if len(fs.entries[d][s][1]) >= 1 and not fs.links_of(d, s)]
        if not originals:
            raise scen.CaseError("no originals")
        decoys = []
        if mode in ("copy-decoy", "copy-decoy-prehash", "nocopy", "killaftersync"):
            # decoys: same name+size+stamp, other content, on another (or the same) disk; plus true copies
            for (d, s) in rng.sample(originals, min(len(originals), rng.randint(1, 4))):
                e = fs.entries[d][s]
                d2 = rng.choice(a.disks)
                base = s.split(b"/")[-1]
                zero = e[2] % 10**9 == 0
                # with a zero sub-second stamp the whole path must match, so the decoy must live on another disk
                if zero:
                    if len(a.disks) < 2:
                        continue
                    d2 = rng.choice([x for x in a.disks if x != d])
                    s2 = s
                else:
                    s2 = (b"decoydir%d/" % rng.randint(0, 2) + base) if (d2 == d or rng.random() < 0.5) else s
                if not scen._clear_path(fs, d2, s2):
                    continue
                true_copy = rng.random() < 0.3
                data = e[1] if true_copy else gen_decoy(rng, len(e[1]), c0, taken, e[1])
                if data == e[1] and not true_copy:
                    continue
                fs.write(d2, s2, data, mtime_ns=e[2])
                if not true_copy:
                    decoys.append((d2, s2))
            scen.mutate(fs, rng, rng.randint(0, 3), hostile=0.1, ops=["create", "append"], maxblocks=3)
            args = ["-E", "-Z"] + opts
            if mode == "copy-decoy-prehash":
                args.append("-h")
            if mode == "nocopy":
                args.append("-N")
            par0 = a.parity_bytes()
            if mode == "killaftersync":
                r0 = a.cmd("sync", "--test-kill-after-sync", *args, variant=variant)
                hist.append(("sync --test-kill-after-sync", r0.rc))
            r = a.cmd("sync", *args, variant=variant)
            hist.append(("sync", args, r.rc))
            for s_ in r.san:
                V.append(("sanitizer:" + A.san_key(s_), s_[:2000], rep))
            c = a.load_content()
            label = "%s, %d decoys, sync %s rc=%s" % (mode, len(decoys), " ".join(args), r.rc)
            res["counters"]["decoys"] = res["counters"].get("decoys", 0) + len(decoys)
            n = hashes_ok(a, fs, c, V, label, rep)
            res["counters"]["hashes_verified"] = res["counters"].get("hashes_verified", 0) + n
            pp, st = P.check_parity(a, fs, c)
            for pr in pp[:2]:
                V.append(("parity-mismatch-after-shortcut", "%s: stripe %d level %d: %s" % (label, pr["pos"], pr["level"], pr["why"]), rep))
            copied = [t for t in r.tag("scan") if len(t) > 1 and t[1] == b"copy"]
            res["counters"]["copies_detected"] = res["counters"].get("copies_detected", 0) + len(copied)
            decoy_detected = {(t[4], t[5]) for t in copied if len(t) >= 6}
            hit = [x for x in decoys if (a.disk_names[x[0]].encode(), x[1]) in decoy_detected]
            if hit and mode != "nocopy":
                if r.rc == 0:
                    V.append(("decoy-accepted-sync-exit-ok", "%s: copy detection matched decoys %s and sync exited 0" % (label, evidence.jsonable(hit[:2])), rep))
                if mode == "copy-decoy-prehash" and a.parity_bytes() != par0:
                    V.append(("prehash-did-not-protect-parity", "%s: parity changed although pre-hash met a decoy" % label, rep))
                res["counters"]["decoys_matched_by_copy_detection"] = res["counters"].get("decoys_matched_by_copy_detection", 0) + len(hit)
            # the refused copy is now recorded (REP blocks in the saved state): a LATER sync with pre-hash, with more changes
            # pending in other stripes, must again stop before any parity byte is written
            if hit and mode in ("copy-decoy", "copy-decoy-prehash") and r.rc != 0 and rng.random() < 0.7:
                # (new files only: changing the decoy or its source would legitimately end the "copy" relation)
                scen.mutate(fs, rng, rng.randint(1, 3), hostile=0.1, ops=["create"], maxblocks=3)
                par1 = a.parity_bytes()
                rr = a.cmd("sync", "-E", "-Z", "-h", *opts, variant=variant)
                hist.append(("sync -h again", rr.rc))
                for s_ in rr.san:
                    V.append(("sanitizer:" + A.san_key(s_), s_[:2000], rep))
                res["counters"]["second_prehash_syncs"] = res["counters"].get("second_prehash_syncs", 0) + 1
                if rr.rc == 0:
                    V.append(("decoy-accepted-sync-exit-ok", "%s: a second sync -h exited 0 although the recorded copy still does not match" % label, rep))
                if a.parity_bytes() != par1:
                    V.append(("prehash-did-not-protect-parity", "%s: a second sync -h (rc=%s) changed parity although pre-hash met the refused copy again" % (label, rr.rc), rep))
            # a following plain sync must converge to a fully valid state
            r2 = a.cmd("sync", "-E", "-Z", *opts, variant=variant)
            r3 = a.cmd("sync", "-E", "-Z", *opts, variant=variant)
            c2 = a.load_content()
            n = hashes_ok(a, fs, c2, V, label + " then sync x2 (rc %s,%s)" % (r2.rc, r3.rc), rep)
            res["counters"]["hashes_verified"] += n
            if r3.rc == 0:
                nb = [1 for f in c2.files for b in f.blocks if b[1] != BLK]
                if nb:
                    V.append(("not-converged-after-decoy", "%s: %d blocks still unsynced after two more syncs" % (label, len(nb)), rep))
                rc_ = a.cmd("check", *opts, variant=variant)
                if rc_.rc != 0:
                    V.append(("check-fails-after-decoy-sync", "%s: check rc=%s %s" % (label, rc_.rc, rc_.err[-200:].decode("latin-1")), rep))
        elif mode == "pending-import-decoy":
            # a recorded-but-never-synced file (its blocks carry the hash of what the parity STILL holds: the file it replaced)
            # is lost, and a file with its size and time-stamp but the OLD content is offered for import / lies in the array
            # (a file whose blocks all lie beyond stripe 0, so that a sync limited to the first stripe cannot reach them)
            n2i_ = {nm_.encode(): i_ for i_, nm_ in enumerate(a.disk_names)}
            beyond = {(n2i_[c0.disk_name(f.disk)], f.sub) for f in c0.files if f.blocks and min(b[0] for b in f.blocks) >= 1}
            cands = [(d, s) for (d, s) in originals if len(fs.entries[d][s][1]) > a.bs and (d, s) in beyond]
            if not cands:
                raise scen.CaseError("no multi-block original beyond the first stripe")
            d, s = rng.choice(cands)
            old = fs.entries[d][s][1]
            fs.remove(d, s)
            nm = b"replacer.bin"
            if not scen._clear_path(fs, d, nm):
                raise scen.CaseError("name taken")
            new = gen_decoy(rng, len(old), c0, taken, None)
            fs.write(d, nm, new)
            mt = fs.entries[d][nm][2]
            r = a.cmd("sync", "-E", "-Z", *rng.choice([["-B", "1"], ["-S", "0", "-B", "1"]]), *opts, variant=variant)
            hist.append(("sync-partial", r.rc))
            c1 = a.load_content()
            rec = [f for f in c1.files if f.sub == nm and c1.disk_name(f.disk) == a.disk_names[d].encode()]
            pending = bool(rec) and any(b[1] != BLK for b in rec[0].blocks)
            imp = os.path.join(a.root, "import")
            os.makedirs(imp)
            where = rng.choice(["import", "array"])
            if where == "import":
                dp = os.path.join(os.fsencode(imp), b"offer.bin")
            else:
                d2 = rng.choice(a.disks)
                dp = fs.path(d2, b"offer-in-array.bin")
            with open(dp, "wb") as f:
                f.write(old)
            os.utime(dp, ns=(mt, mt))
            os.unlink(fs.path(d, nm))
            args = list(opts) + (["-i", imp] if where == "import" else [])
            r = a.cmd("fix", *args, variant=variant)
            hist.append(("fix", args, r.rc))
            for s_ in r.san:
                V.append(("sanitizer:" + A.san_key(s_), s_[:2000], rep))
            label = "%s (%s, pending=%s), fix %s rc=%s" % (mode, where, pending, " ".join(args), r.rc)
            res["counters"]["pending_decoys_offered"] = res["counters"].get("pending_decoys_offered", 0) + (1 if pending else 0)
            p = fs.path(d, nm)
            if os.path.exists(p):
                with open(p, "rb") as f:
                    got = f.read()
                if got != new:
                    V.append(("fix-used-unverified-data", "%s: %r restored with bytes that are not the recorded version%s" %
                              (label, nm, " (they are the offered old content)" if got == old else ""), rep))
            elif r.rc == 0 and not os.path.exists(p + b".unrecoverable"):
                V.append(("fix-silently-skips-file", "%s: %r neither restored nor reported" % (label, nm), rep))
        elif mode == "move":
            for (d, s) in rng.sample(originals, min(len(originals), rng.randint(1, 4))):
                if rng.random() < 0.5 or len(a.disks) < 2:
                    s2 = b"moved/" + s.split(b"/")[-1] + b".%d" % rng.randint(0, 99)
                    if scen._clear_path(fs, d, s2):
                        fs.rename(d, s, d, s2)
                else:
                    d2 = rng.choice([x for x in a.disks if x != d])
                    if scen._clear_path(fs, d2, s):
                        fs.rename(d, s, d2, s)
            # "moves" that are not: same inode and size, other bytes - rewritten in place with a new time-stamp, or (for a
            # file recorded with a zero sub-second part) a time-stamp inside the same second - optionally renamed as well
            nrew = 0
            for (d, s) in rng.sample(originals, min(len(originals), rng.randint(1, 3))):
                e = fs.entries[d].get(s)
                if e is None or e[0] != "file" or fs.links_of(d, s):
                    continue
                sec, ns = divmod(e[2], 10**9)
                mt = sec * 10**9 + rng.randint(1, 999_999_999) if (ns == 0 and rng.random() < 0.7) else None
                fs.write(d, s, gen_decoy(rng, len(e[1]), c0, taken, e[1]), mtime_ns=mt, keep_inode=True)
                nrew += 1
                if rng.random() < 0.4:
                    s2 = b"rewritten-and-moved/" + s.split(b"/")[-1]
                    if scen._clear_path(fs, d, s2):
                        fs.rename(d, s, d, s2)
            res["counters"]["rewritten_in_place"] = res["counters"].get("rewritten_in_place", 0) + nrew
            if disk_replaced:
                pa, pb = fs.path(a.disks[0], b"twin-a"), fs.path(a.disks[0], b"twin-b")
                ea, eb = fs.entries[a.disks[0]].get(b"twin-a"), fs.entries[a.disks[0]].get(b"twin-b")
                if ea and eb and ea[0] == "file" and eb[0] == "file" and os.path.isfile(pa) and os.path.isfile(pb):
                    tmp_ = pa + b".xchg"
                    os.rename(pa, tmp_)
                    os.rename(pb, pa)
                    os.rename(tmp_, pb)
                    for p_, e_ in ((pa, ea), (pb, eb)):
                        with open(p_, "r+b") as fh:
                            fh.write(e_[1])
                        os.utime(p_, ns=(e_[2], e_[2]))
                    a.disks[0], a.disks[1] = a.disks[1], a.disks[0]
                    a.write_conf()
                    res["counters"]["disks_replaced_with_inode_exchange"] = 1
            r = a.cmd("sync", "-E", "-Z", *opts, variant=variant)
            hist.append(("sync", r.rc))
            c = a.load_content()
            label = "moves + %d in-place rewrites, sync rc=%s" % (nrew, r.rc)
            if r.rc != 0:
                V.append(("sync-fails-after-true-moves", "%s %s" % (label, r.err[-200:].decode("latin-1")), rep))
            n = hashes_ok(a, fs, c, V, label, rep)
            res["counters"]["hashes_verified"] = res["counters"].get("hashes_verified", 0) + n
            res["counters"]["moves_detected"] = len([t for t in r.tag("scan") if len(t) > 1 and t[1] in (b"move", b"copy")])
            pp, st = P.check_parity(a, fs, c)
            for pr in pp[:2]:
                V.append(("parity-mismatch-after-shortcut", "%s: stripe %d level %d: %s" % (label, pr["pos"], pr["level"], pr["why"]), rep))
        else:
            # import / duplicate: lose files beyond what parity alone can rebuild, offer true copies and decoys
            state = fs.clone_entries()
            imp = os.path.join(a.root, "import")
            os.makedirs(imp)
            victims = rng.sample(originals, min(len(originals), rng.randint(2, 5)))
            offered = {}
            for k, (d, s) in enumerate(victims):
                e = fs.entries[d][s]
                truth = rng.random() < 0.5
                data = e[1] if truth else gen_decoy(rng, len(e[1]), c0, taken, e[1])
                if mode == "import":
                    p = os.path.join(os.fsencode(imp), b"imp%d_" % k + s.split(b"/")[-1])
                    with open(p, "wb") as f:
                        f.write(data)
                    os.utime(p, ns=(e[2], e[2]))
                else:
                    # a not yet synced duplicate elsewhere in the array with the same size and stamp
                    d2 = rng.choice(a.disks)
                    s2 = b"dupl%d_" % k + s.split(b"/")[-1]
                    p = fs.path(d2, s2)
                    with open(p, "wb") as f:
                        f.write(data)
                    os.utime(p, ns=(e[2], e[2]))
                offered[(d, s)] = truth
                os.unlink(fs.path(d, s))
            # and all the parity is gone: only offered data can bring the files back
            for pth in a.all_parity_paths():
                if os.path.exists(pth):
                    os.unlink(pth)
            args = list(opts)
            if mode == "import":
                args += rng.choice([["-i", imp], ["--test-import-content", imp]])
            r = a.cmd("fix", *args, variant=variant)
            hist.append(("fix", args, r.rc))
            for s_ in r.san:
                V.append(("sanitizer:" + A.san_key(s_), s_[:2000], rep))
            label = "%s, fix %s rc=%s" % (mode, " ".join(args), r.rc)
            nrec = 0
            for (d, s), truth in offered.items():
                e = state[d][s]
                p = fs.path(d, s)
                if os.path.exists(p):
                    with open(p, "rb") as f:
                        got = f.read()
                    if got != e[1]:
                        V.append(("fix-used-unverified-data", "%s: %s:%r restored with bytes that are not the recorded version (offered copy was %s)" %
                                  (label, a.disk_names[d], s, "true" if truth else "a decoy"), rep))
                    else:
                        nrec += 1
                        if not truth:
                            pass  # recovered some other way (e.g. small file duplicated elsewhere): fine
                else:
                    if truth and not os.path.exists(p + b".unrecoverable") and r.rc == 0:
                        V.append(("fix-silently-skips-file", "%s: %r neither restored nor reported" % (label, s), rep))
            res["counters"]["offered_true"] = res["counters"].get("offered_true", 0) + sum(1 for t in offered.values() if t)
            res["counters"]["offered_decoy"] = res["counters"].get("offered_decoy", 0) + sum(1 for t in offered.values() if not t)
            res["counters"]["recovered_from_offer"] = res["counters"].get("recovered_from_offer", 0) + nrec
            any_unrec = any(not os.path.exists(fs.path(d, s)) for (d, s) in offered)
            if any_unrec and r.rc == 0:
                V.append(("fix-exit-ok-with-unrecovered-files", label, rep))
        res["nontrivial"] = True
        res["key"] = "%s|%s|%s" % (sorted((k, str(v)) for k, v in cfg.items()), mode, hist)
        res["sample"] = {"cfg": cfg, "mode": mode, "history": evidence.jsonable(hist)}
        return res
    finally:
        a.cleanup()


def main(tier, seed, replay, jobs, scale):
    run = evidence.Run("C19", tier, seed, "exploration", RULE)
    if replay:
        import json
        cases = [tuple(json.load(open(replay))["replay"]["case"])]
    else:
        n = int((700 if tier == "quick" else 30000) * scale)
        cases = [(seed, i, tier) for i in range(n)]
    par.absorb(run, par.run_cases(run_case, cases, jobs))
    run.assumptions += ["hash size 16 (no truncated-hash collisions)",
                        "a decoy shares name/path, size and time-stamp with a fully hashed file; whether copy detection picks it depends on scan order - cases where it was not picked are counted but judge only the hash/parity invariants"]
    return run.finish(min_eval=max(1, len(cases) // 2), min_nontrivial=min(20, len(cases)))
