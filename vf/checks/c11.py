"""C11 A successful sync captures every change and converges."""
import os
import random

from .. import arr as A
from .. import content as cnt
from .. import evidence, par, refhash, scen
from ..content import BLK
from .c10 import list_dump

RULE = ("random operation sequences between syncs (create, overwrite, append, truncate, delete, rename, move across dirs/disks, cp -p, "
        "file<->dir<->link replacement, link changes, time-stamp-only changes, swaps, same-size rewrites, delete+create for inode "
        "reuse, several operations on one path), 3 rounds per case (6 thorough), with and without usable inodes (--test-fake-uuid; "
        "ext4 scratch for inode reuse), scan orders alpha/inode/dir/physical, parallel or sequential scan. Oracle per round: before "
        "sync, diff exits 2 exactly when the model says a file or link was added/removed/changed; after a successful sync diff "
        "exits 0 with no change tags, list -l equals the model's files and links (size, mtime, target; hard-link groups up to the "
        "choice of the name recorded as file), decoded empty dirs equal the model's, check exits 0, and EVERY recorded block hash "
        "equals the frozen reference hash of the model's bytes (so nothing changed was trusted instead of read). In 40 % of the changing rounds an incomplete sync (-B / -S -B / killed after the parity update) comes first: diff must exit 2 while a stripe holding a file has a block without valid parity. One case in eight replaces two data disks (UUID to other UUID) while two same-size same-stamp files exchange inode numbers. distinct = "
        "(configuration, operation sequence).")

ORDERS = [None, "--test-force-order-alpha", "--test-force-order-inode", "--test-force-order-dir", "--test-force-order-physical"]


def _unmatched(res):
    from .. import findings
    return len([v for v in res["violations"] if findings.match("C11", v[0]) is None])


def model_view(fs, a):
    """files: {(disk, sub): (size, mtime_ns)}, groups of hard-linked names, symlinks, empty dirs"""
    files = {}
    sym = {}
    hard = {}
    dirs = set()
    for d in a.disks:
        dn = a.disk_names[d].encode()
        for s, e in fs.entries[d].items():
            if e[0] == "file":
                files[(dn, s)] = (len(e[1]), e[2])
            elif e[0] == "symlink":
                sym[(dn, s)] = e[1]
            elif e[0] == "hardlink":
                hard[(dn, s)] = e[1]
            elif e[0] == "dir":
                dirs.add((dn, s))
    return files, sym, hard, dirs


def signature(fs, a):
    """What diff compares: names with size+time-stamp, links with kind and target (dirs ignored)."""
    files, sym, hard, dirs = model_view(fs, a)
    sig = {}
    for k, v in files.items():
        sig[k] = ("f",) + v
    for k, v in sym.items():
        sig[k] = ("s", v)
    for k, v in hard.items():
        # a hard link is a name of its target's inode: its identity is the target's stamp
        t = files.get((k[0], v))
        sig[k] = ("h", t)
    return sig


def check_recorded(a, fs, res, label, rep, variant, opts):
    """After a successful sync: list/content/hashes vs the model."""
    V = res["violations"]
    files, sym, hard, dirs = model_view(fs, a)
    r, lfiles, llinks = list_dump(a, variant)
    if r.rc != 0:
        V.append(("list-fails", "%s: list rc=%s" % (label, r.rc), rep))
        return
    got_files = {(t[0], t[1]): (t[2], t[3] * 10**9 + (t[4] if isinstance(t[4], int) and 0 <= t[4] < 10**9 else 0)) for t in lfiles}
    got_sym = {(t[1], t[2]): t[3] for t in llinks if t[0] == b"link_symlink"}
    got_hard = {(t[1], t[2]): t[3] for t in llinks if t[0] == b"link_hardlink"}
    # hard-link groups: the tool may record any name of the group as the file
    groups = {}
    for (dn, s), tgt in hard.items():
        groups.setdefault((dn, tgt), set()).add(s)
    exp_files = dict(files)
    exp_hard_names = set(hard)
    for (dn, tgt), names in groups.items():
        allnames = names | {tgt}
        rec = [n for n in allnames if (dn, n) in got_files]
        if len(rec) == 1 and rec[0] != tgt:
            # role swap: accepted
            exp_files[(dn, rec[0])] = exp_files.pop((dn, tgt))
            exp_hard_names.discard((dn, rec[0]))
            exp_hard_names.add((dn, tgt))
    if got_files != exp_files:
        miss = sorted(set(exp_files) - set(got_files))[:3]
        extra = sorted(set(got_files) - set(exp_files))[:3]
        wrong = [(k, got_files[k], exp_files[k]) for k in set(got_files) & set(exp_files) if got_files[k] != exp_files[k]][:3]
        key = "list-misses-file" if miss else ("list-has-stale-file" if extra else "list-wrong-size-or-time")
        V.append((key, "%s: missing=%s stale=%s wrong(name, listed, model)=%s" % (label, evidence.jsonable(miss), evidence.jsonable(extra), evidence.jsonable(wrong)), rep))
    if got_sym != sym:
        V.append(("list-symlinks-differ", "%s: listed %s model %s" % (label, evidence.jsonable(sorted(got_sym.items())[:3]), evidence.jsonable(sorted(sym.items())[:3])), rep))
    if set(got_hard) != exp_hard_names:
        V.append(("list-hardlinks-differ", "%s: listed %s model %s" % (label, evidence.jsonable(sorted(got_hard)[:4]), evidence.jsonable(sorted(exp_hard_names)[:4])), rep))
    # empty dirs and hashes through the independent decoder
    c = a.load_content()
    got_dirs = {(c.disk_name(x["disk"]), x["sub"]) for x in c.dirs}
    if got_dirs != dirs:
        V.append(("recorded-empty-dirs-differ", "%s: recorded %s model %s" % (label, evidence.jsonable(sorted(got_dirs)[:4]), evidence.jsonable(sorted(dirs)[:4])), rep))
    nb = 0
    name2idx = {n.encode(): i for i, n in enumerate(a.disk_names)}
    for f in c.files:
        d = name2idx[c.disk_name(f.disk)]
        e = fs.entries[d].get(f.sub)
        if e is not None and e[0] == "hardlink":
            e = fs.entries[d].get(e[1])
        if e is None or e[0] != "file":
            continue
        data = e[1]
        for i, (pos, st, h) in enumerate(f.blocks):
            if st != BLK:
                V.append(("block-not-synced-after-successful-sync", "%s: %r block %d is %s" % (label, f.sub, i, st), rep))
                break
            inf = c.info[pos]
            kind, seed = (c.prevhash, c.prevhashseed) if (inf and inf[2] and c.prevhash) else (c.hash, c.hashseed)
            want = refhash.digest(kind, seed, data[i * c.blocksize:(i + 1) * c.blocksize], c.hashsize)
            nb += 1
            if h != want:
                V.append(("stale-hash-recorded(changed-file-trusted-not-read)", "%s: %r block %d recorded hash %s != hash of current bytes %s" %
                          (label, f.sub, i, h.hex(), want.hex()), rep))
                break
    res["counters"]["hashes_verified"] = res["counters"].get("hashes_verified", 0) + nb
    rc = a.cmd("check", *opts, variant=variant)
    if rc.rc != 0:
        V.append(("check-fails-after-successful-sync", "%s: check rc=%s %s" % (label, rc.rc, rc.err[-250:].decode("latin-1")), rep))


def run_case(case):
    seed, idx, tier = case
    rng = random.Random("c11-%d-%d" % (seed, idx))
    variant = "asan" if idx % 4 == 3 else "plain"
    res = dict(key=None, violations=[], counters={}, nontrivial=False)
    cfg = scen.gen_config(rng, max_nd=5, max_lev=3)
    if idx % 8 == 1:
        # (see uuid_swap below) two UUIDs change at once: needs two data disks, and two parity levels to be let through
        cfg["nd"] = max(2, cfg["nd"])
        cfg["nlev"] = max(2, cfg["nlev"])
        cfg["content_on_data"] = False  # the content lines must not follow the exchanged data lines
        if cfg["nlev"] != 3:
            cfg["zmode"] = False
        if cfg.get("splits") and len(cfg["splits"]) != cfg["nlev"]:
            cfg.pop("splits")
    use_inodes = idx % 2 == 0
    ext4 = idx % 6 == 2
    opts = []
    if use_inodes:
        opts.append("--test-fake-uuid")
    order = ORDERS[idx % len(ORDERS)]
    if order:
        opts.append(order)
    if idx % 3 == 1:
        opts.append("--test-skip-multi-scan")
    a, fs = scen.make(rng, cfg, "c11", ext4=ext4)
    hist = []
    # one case in eight: the disks report no UUID at first (inodes are recorded but not trusted) and do from the second
    # round on; in between two files of equal size and time-stamp get each other's inode number while names, bytes and
    # time-stamps stay as they are (restore from a backup) - nothing changed, nothing may be re-attributed
    transition = idx % 8 == 5
    # one case in eight: the first two data disks are REPLACED (their UUIDs change from one non-empty value to another: the
    # fake UUIDs go by configuration order, so the two data lines are exchanged) and the twin files come back from the
    # backup with each other's inode number: inode numbers of the old file-system mean nothing on the new one
    uuid_swap = idx % 8 == 1
    if uuid_swap and "--test-fake-uuid" not in opts:
        opts.append("--test-fake-uuid")
    if transition:
        opts = [o for o in opts if o != "--test-fake-uuid"]
    try:
        A.populate(fs, rng, nfiles=rng.randint(4, 16), hostile=0.2)
        if transition or uuid_swap:
            td = rng.choice(a.disks[:2] if uuid_swap else a.disks)
            tn = rng.randint(1, 3 * a.bs)
            tt = fs.clock.next()
            fs.write(td, b"twin-a", A.gen_bytes(rng, tn, "rand"), mtime_ns=tt)
            fs.write(td, b"twin-b", A.gen_bytes(rng, tn, "rand"), mtime_ns=tt)
        prev_sig = {}
        rounds = 3 if tier == "quick" else 6
        for rnd in range(rounds):
            if rnd == 1 and (transition or uuid_swap):
                pa, pb = fs.path(td, b"twin-a"), fs.path(td, b"twin-b")
                if os.path.isfile(pa) and os.path.isfile(pb) and not os.path.islink(pa) and not os.path.islink(pb):
                    da, db = open(pa, "rb").read(), open(pb, "rb").read()
                    sa, sb = os.lstat(pa), os.lstat(pb)
                    tmp = pa + b".xchg"
                    os.rename(pa, tmp)
                    os.rename(pb, pa)
                    os.rename(tmp, pb)
                    for p_, data_, st_ in ((pa, da, sa), (pb, db, sb)):
                        with open(p_, "r+b") as fh:
                            fh.write(data_)
                        os.utime(p_, ns=(st_.st_atime_ns, st_.st_mtime_ns))
                    hist.append("inode-exchange")
                    res["counters"]["uuid_transitions_with_inode_exchange"] = 1
                if uuid_swap:
                    a.disks[0], a.disks[1] = a.disks[1], a.disks[0]
                    a.write_conf()
                    hist.append("uuid-change-of-two-disks")
                    res["counters"]["uuid_changes_with_inode_exchange"] = 1
                else:
                    opts = opts + ["--test-fake-uuid"]
            if rnd == 2 and (transition or uuid_swap):
                # the twins share size and time-stamp: any later swap/rename between them would be a content change under an
                # unchanged name, size and time-stamp, which no scanner can see - they leave before the random operations
                for tw in (b"twin-a", b"twin-b"):
                    if tw in fs.entries[td]:
                        fs.remove(td, tw)
            will_partial = rng.random() < 0.4
            if rnd > 0 and not (rnd == 1 and (transition or uuid_swap)):
                ops = scen.mutate(fs, rng, rng.randint(1, 8), hostile=0.2)
                if will_partial and len(a.disks) > 1 and rng.random() < 0.6:
                    # a copy (same name, size, time-stamp on another disk) is among the changes the incomplete sync will meet
                    fl_ = [x for x in fs.files() if len(fs.entries[x[0]][x[1]][1]) > 0]
                    if fl_:
                        d_, s_ = rng.choice(fl_)
                        d2_ = rng.choice([x for x in a.disks if x != d_])
                        if scen._clear_path(fs, d2_, s_):
                            fs.copy(d_, s_, d2_, s_)
                            ops.append(("copy", d_, s_, d2_))
                # several operations on the same path
                if rng.random() < 0.5:
                    fl = fs.files()
                    if fl:
                        d, s = rng.choice(fl)
                        for _ in range(rng.randint(2, 4)):
                            if (d, s) in fs.files():
                                ops += scen.mutate(fs, rng, 1, hostile=0.2, ops=["overwrite", "append", "truncate", "touch", "same_size_rewrite", "same_second_rewrite"], disks=[d])
                hist.append([o[0] for o in ops])
            cur_sig = signature(fs, a)
            expect_diff = cur_sig != prev_sig
            rep = {"case": list(case), "cfg": cfg, "opts": opts, "history": hist, "round": rnd}
            rd = a.cmd("diff", *opts, variant=variant)
            for s_ in rd.san:
                res["violations"].append(("sanitizer:" + A.san_key(s_), s_[:2500], rep))
            res["counters"]["diff_runs"] = res["counters"].get("diff_runs", 0) + 1
            want_rc = 2 if expect_diff else 0
            if rd.rc != want_rc:
                changed = [k for k in set(cur_sig) | set(prev_sig) if cur_sig.get(k) != prev_sig.get(k)][:3]
                res["violations"].append(("diff-exit-status-wrong:%s" % ("misses-change" if expect_diff else "reports-phantom-change"),
                                          "round %d: diff rc=%s, model expects %s (changed in model: %s; summary %s)" %
                                          (rnd, rd.rc, want_rc, evidence.jsonable(changed), evidence.jsonable([t[1:] for t in rd.tag("summary")][:8])), rep))
            if expect_diff and will_partial:
                # a sync that does not finish (limited to some stripes, or stopped after the parity update before the final
                # save) comes first: nothing else changes, and diff has to say that there is still something to do as long
                # as a stripe holding a file has a block whose parity is not up to date
                pargs = rng.choice([["-B", str(rng.randint(1, 3))], ["-B", "1"], ["-S", str(rng.randint(1, 4)), "-B", str(rng.randint(1, 2))],
                                    ["--test-kill-after-sync"]])
                rp = a.cmd("sync", "-E", "-Z", *pargs, *opts, variant=variant)
                hist.append(("sync-incomplete", pargs, rp.rc))
                try:
                    cpart = a.load_content()
                except (FileNotFoundError, cnt.DecodeError):
                    cpart = None
                if cpart is not None:
                    smp = cpart.stripe_map()
                    incomplete = any(any(e[1] == "file" for e in ents) and any(e[4] != BLK for e in ents) for ents in smp.values())
                    allclean = all(e[4] == BLK for ents in smp.values() for e in ents)
                    rdp = a.cmd("diff", *opts, variant=variant)
                    res["counters"]["diff_runs_after_incomplete_sync"] = res["counters"].get("diff_runs_after_incomplete_sync", 0) + (1 if incomplete else 0)
                    if incomplete and rdp.rc != 2:
                        res["violations"].append(("diff-exit-status-wrong:misses-incomplete-sync",
                                                  "round %d: after sync %s (rc=%s) stripes holding files still have blocks without valid parity, nothing else is pending, diff rc=%s" %
                                                  (rnd, " ".join(pargs), rp.rc, rdp.rc), rep))
                    elif allclean and rp.rc == 0 and rdp.rc != 0:
                        res["violations"].append(("diff-exit-status-wrong:reports-phantom-change", "round %d: after sync %s completed everything diff rc=%s" %
                                                  (rnd, " ".join(pargs), rdp.rc), rep))
                # ... and before the sync that completes the job some files are re-timed (same bytes): copies first of all,
                # whose blocks the incomplete sync recorded with hashes borrowed from the original
                nret = 0
                for (d_, s_) in fs.files():
                    e_ = fs.entries[d_][s_]
                    if len(e_[1]) == 0 or fs.links_of(d_, s_):
                        continue
                    is_copy = any(d2 != d_ and fs.entries[d2].get(s_) is not None and fs.entries[d2][s_][0] == "file" and
                                  (len(fs.entries[d2][s_][1]), fs.entries[d2][s_][2]) == (len(e_[1]), e_[2]) for d2 in a.disks)
                    if rng.random() < (0.8 if is_copy else 0.08):
                        fs.set_mtime(d_, s_)
                        nret += 1
                if nret:
                    hist.append(("retimed-after-incomplete-sync", nret))
                    cur_sig = signature(fs, a)
            rs = a.cmd("sync", "-E", "-Z", *opts, variant=variant)
            for s_ in rs.san:
                res["violations"].append(("sanitizer:" + A.san_key(s_), s_[:2500], rep))
            hist.append(("sync", rs.rc))
            if rs.rc != 0:
                res["violations"].append(("sync-fails-on-quiet-array", "round %d: sync rc=%s %s" % (rnd, rs.rc, rs.err[-300:].decode("latin-1")), rep))
                break
            res["counters"]["syncs"] = res["counters"].get("syncs", 0) + 1
            rd2 = a.cmd("diff", *opts, variant=variant)
            chg = [t for t in rd2.tag("scan") if len(t) > 1 and t[1] != b"equal"]
            if rd2.rc != 0 or chg:
                res["violations"].append(("diff-after-sync-not-clean", "round %d: diff rc=%s tags=%s" % (rnd, rd2.rc, evidence.jsonable(chg[:3])), rep))
            check_recorded(a, fs, res, "round %d" % rnd, rep, variant, opts)
            prev_sig = cur_sig
            if _unmatched(res) >= 3:
                break
        res["nontrivial"] = res["counters"].get("syncs", 0) > 0
        res["key"] = "%s|%s|%s" % (sorted(cfg.items()), opts, hist)
        res["sample"] = {"cfg": cfg, "opts": opts, "ext4": ext4, "history": hist[:8]}
        return res
    finally:
        a.cleanup()


def main(tier, seed, replay, jobs, scale):
    run = evidence.Run("C11", tier, seed, "exploration", RULE)
    if replay:
        import json
        cases = [tuple(json.load(open(replay))["replay"]["case"])]
    else:
        n = int((480 if tier == "quick" else 12000) * scale)
        cases = [(seed, i, tier) for i in range(n)]
    par.absorb(run, par.run_cases(run_case, cases, jobs))
    run.assumptions += ["directory-only changes do not make diff return 2; symlink time-stamps are not recorded",
                        "content changes under an unchanged size and time-stamp are C04's business, the generator never makes them here",
                        "empty directories are observed through the content file and check (list prints files and links only)"]
    return run.finish(min_eval=max(1, len(cases) // 2), min_nontrivial=min(20, len(cases)))
