"""C01 Complete recovery from any loss within the parity level."""
import itertools
import os
import random
import shutil
import subprocess

from .. import arr as A
from .. import content as cnt
from .. import dmg, evidence, par, scen

RULE = ("random configuration (1..6 parity + z, 1..6 data disks incl. position holes from removed disks, block 1/2/4 KiB, hash "
        "16/8/4/2 and both kinds incl. a migration in progress, 1..4 splits, 1..4 content copies) and random sync history (adds, "
        "deletes, moves, partial -B syncs, -R) ending in a clean sync; then a damage plan touching <= N devices (disk wiped, files "
        "deleted / truncated / bytes flipped with kept or moved time-stamp, links removed or re-pointed (prefix / extension / other target, plain file or independent copy in their place), one file renamed over another, parity deleted / zeroed / truncated / flipped / randomised) or "
        "<= N blocks of every stripe chosen independently from the decoded block map; then fix and check. Oracle: fix exit 0 with no "
        "unrecoverable error, every recorded file/symlink/hardlink/empty dir byte- and mtime-identical to the harness snapshot "
        "taken at sync time, following check clean. thorough: all device subsets of size <= N when nd+np <= 7. A case is "
        "non-trivial when the plan really changed >= 1 recorded block/entry; distinct by (cfg, history, plan).")

DATA_KINDS = ["wipe", "wipe", "delete", "truncate", "flip", "flip-newtime", "rmlinks", "relinks", "relinks", "rename-over"]
PAR_KINDS = ["delete", "zero", "truncate", "flips", "random"]


def build_synced_array(rng, tag, cfg=None, variant="plain", rounds=None, want_migration=None, twins=False):
    """Returns (arr, fs, state, hist) with a clean final sync, or raises CaseError."""
    cfg = cfg or scen.gen_config(rng)
    a, fs = scen.make(rng, cfg, tag)
    hist = []
    try:
        A.populate(fs, rng, nfiles=rng.randint(5, 20), hostile=0.12)
        if twins:
            # files of equal size whose time-stamps agree in the seconds and differ in the nanoseconds (or one of them has none)
            td = rng.choice(a.disks)
            tn = rng.randint(1, 4 * a.bs)
            tsec = fs.clock.next() // 10**9
            for k_, ns_ in enumerate(rng.sample([0, 1, 111111111, 222222222, 999999999], rng.randint(2, 3))):
                fs.write(td, b"twins/t%d" % k_, A.gen_bytes(rng, tn, "rand"), mtime_ns=tsec * 10**9 + ns_)
        first_hash = rng.choice([None, None, "--test-force-murmur3", "--test-force-spooky2"])
        rounds = rounds if rounds is not None else rng.randint(0, 3)
        for r_ in range(rounds):
            args = list(rng.choice([[], [], ["-S", str(rng.randint(0, 5)), "-B", str(rng.randint(1, 8))], ["-R"], ["-h"]]))
            if r_ == 0 and first_hash:
                args.append(first_hash)
            r = a.cmd("sync", "-E", "-Z", *args, variant=variant)
            hist.append(("sync", args, r.rc))
            scen.mutate(fs, rng, rng.randint(1, 6), hostile=0.12)
            if len(a.disks) >= 2 and rng.random() < 0.15:
                d = rng.choice(a.disks)
                if not any(cp.startswith(a.ddir(d) + "/") for cp in a.cpaths()):
                    fs.clear_disk(d)
                    r = a.cmd("sync", "-E", "-Z", variant=variant)
                    if r.rc == 0:
                        a.drop_disk(d)
                        hist.append(("drop-disk", d))
                        if rng.random() < 0.5:
                            nd_ = a.add_disk()
                            fs.entries[nd_] = {}
                            A.populate(fs, rng, nfiles=rng.randint(1, 5), hostile=0.1, disks=[nd_], links=False, dirs=False)
                            hist.append(("add-disk", nd_))
        if twins:
            # (again right before the final sync: the earlier random operations may have changed the first set)
            td = rng.choice(a.disks)
            tn = rng.randint(1, 4 * a.bs)
            tsec = fs.clock.next() // 10**9
            for k_, ns_ in enumerate(rng.sample([0, 1, 111111111, 222222222, 999999999], rng.randint(2, 3))):
                if scen._clear_path(fs, td, b"twins/u%d" % k_):
                    fs.write(td, b"twins/u%d" % k_, A.gen_bytes(rng, tn, "rand"), mtime_ns=tsec * 10**9 + ns_)
        args = [first_hash] if (rounds == 0 and first_hash) else []
        r = a.cmd("sync", "-E", "-Z", *args, variant=variant)
        hist.append(("sync-final", args, r.rc))
        if r.rc != 0:
            raise scen.CaseError("final sync failed: %s" % r.err[-300:])
        mig = want_migration if want_migration is not None else (rng.random() < 0.15)
        if mig:
            c = a.load_content()
            other = "--test-force-murmur3" if c.hash == "spooky2" else "--test-force-spooky2"
            r1 = a.cmd("rehash", other, variant=variant)
            r2 = a.cmd("scrub", "--test-force-scrub-even", variant=variant)
            hist.append(("rehash+scrub-even", r1.rc, r2.rc))
            if r1.rc != 0 or r2.rc != 0:
                raise scen.CaseError("rehash setup failed")
        return a, fs, scen.recorded_state(fs), hist, cfg
    except Exception:
        a.cleanup()
        raise


class Template:
    """cp -a image of an array root; restore() puts it back under the same path."""

    _n = 0

    def __init__(self, a):
        Template._n += 1
        self.root = a.root
        self.tpl = a.root + ".tpl%d" % Template._n
        subprocess.check_call(["cp", "-a", self.root, self.tpl])

    def restore(self):
        shutil.rmtree(self.root)
        subprocess.check_call(["cp", "-a", self.tpl, self.root])

    def cleanup(self):
        shutil.rmtree(self.tpl, ignore_errors=True)


def device_list(a):
    return [("data", d) for d in a.disks] + [("parity", l) for l in range(a.nlev)]


def apply_device_plan(a, fs, rng, state, devices):
    """Damage each device of the list with a random kind. Returns descriptions and a changed flag."""
    desc = []
    changed = False
    for dev in devices:
        kind, idx = dev[0], dev[1]
        if kind == "data":
            how = dev[2] if len(dev) > 2 else rng.choice(DATA_KINDS)
            did = scen.damage_data_disk(a, fs, rng, idx, how, state)
            if not did and how != "wipe":
                how = "wipe"
                scen.wipe_disk(a, idx)
                did = bool(state[idx])
            desc.append(("data", a.disk_names[idx], how))
            changed |= bool(did) and bool(state[idx])
        else:
            how = rng.choice(PAR_KINDS)
            did = False
            for p in a.ppaths(idx):
                did |= scen.damage_parity_file(p, rng, how)
            desc.append(("parity", idx, how))
            changed |= did
    return desc, changed


def apply_stripe_plan(a, c, rng, nmax):
    """For every stripe an independent choice of <= nmax blocks (data or parity) to destroy."""
    sm = c.stripe_map()
    n_dmg = 0
    coll = 0
    desc = []
    for pos in sorted(sm):
        ents = [e for e in sm[pos] if e[1] == "file"]
        cands = [("d", e) for e in ents] + [("p", l) for l in range(a.nlev)]
        k = rng.randint(0, nmax)
        for kind, x in rng.sample(cands, min(k, len(cands))):
            shape = rng.choice(["bit", "byte", "block", "zero"])
            if kind == "d":
                # a third of the data blocks are damaged without putting the time-stamp back
                r = dmg.damage_file_block(a, c, x[2], x[3], rng, shape, keep_stamp=rng.random() < 0.67)
            else:
                r = dmg.damage_parity_block(a, c, x, pos, rng, shape)
            if r == "ok":
                n_dmg += 1
                if len(desc) < 12:
                    desc.append((pos, kind, x if kind == "p" else (c.disk_name(x[0]), x[2].sub, x[3]), shape))
            elif r == "collision":
                coll += 1
    return desc, n_dmg, coll


def judge_recovery(a, fs, state, variant, res, label, replay, fix_args=()):
    """Run fix + check and compare with the recorded state. Appends violations to res."""
    viol = res["violations"]
    # files whose bytes are intact and only the time-stamp moved (re-timed, not damaged): fix has no error to repair there
    # and leaves them alone; their time-stamp is not judged
    retimed = set()
    for d_, ents in state.items():
        for sub_, e_ in ents.items():
            if e_[0] != "file":
                continue
            try:
                p_ = fs.path(d_, sub_)
                st_ = os.lstat(p_)
                if st_.st_mtime_ns != e_[2] and st_.st_size == len(e_[1]) and os.path.isfile(p_) and not os.path.islink(p_):
                    with open(p_, "rb") as fh_:
                        if fh_.read() == e_[1]:
                            retimed.add((d_, sub_))
            except OSError:
                pass
    # reduced hash sizes: a damaged block whose truncated hash happens to equal the recorded one cannot be told from the
    # synced data (documented limitation of hashsize < 16, about 1 in 65536 damaged blocks with 2 bytes): such files are
    # screened out with the frozen reference hash, as the stripe plans already do when they choose what to damage
    collided = set()
    try:
        c_pre = a.load_content()
        if c_pre.hashsize < 16:
            from .. import dmg as _dmg
            n2i_ = {nm.encode(): i for i, nm in enumerate(a.disk_names)}
            for f_ in c_pre.files:
                d_ = n2i_[c_pre.disk_name(f_.disk)]
                e_ = state.get(d_, {}).get(f_.sub)
                if e_ is None or e_[0] != "file":
                    continue
                try:
                    with open(fs.path(d_, f_.sub), "rb") as fh_:
                        disk_ = fh_.read()
                except OSError:
                    continue
                for i_ in range(len(f_.blocks)):
                    blk_ = disk_[i_ * c_pre.blocksize:(i_ + 1) * c_pre.blocksize]
                    if blk_ and blk_ != e_[1][i_ * c_pre.blocksize:(i_ + 1) * c_pre.blocksize] and _dmg.recorded_hash_matches(c_pre, f_, i_, blk_):
                        collided.add((d_, f_.sub))
                        break
    except Exception:
        pass
    if collided:
        res["counters"]["files_with_damage_hidden_by_a_truncated_hash_collision"] = res["counters"].get("files_with_damage_hidden_by_a_truncated_hash_collision", 0) + len(collided)
    r = a.cmd("fix", *fix_args, variant=variant)
    res["counters"]["fix_runs"] = res["counters"].get("fix_runs", 0) + 1
    for s in r.san:
        viol.append(("sanitizer:" + A.san_key(s), "%s fix: %s" % (label, s[:3000]), replay))
    if r.timeout:
        res["inconclusive"] = "fix timeout"
        return False
    unrec = r.summary("error_unrecoverable")
    nun = int(unrec[0]) if unrec else -1
    if not unrec and r.rc == 0 and a.load_content().blockmax == 0:
        # an array without any file block: fix has nothing to process and prints no summary
        nun = 0
        res["counters"]["fix_on_array_without_blocks"] = res["counters"].get("fix_on_array_without_blocks", 0) + 1
    if r.rc != 0 and b"Error in preallocated size of parity file" in r.err and a.load_content().version < 3:
        # diagnosis of the witness: format-2 content records no parity size, the size is taken from the
        # file and an unaligned (truncated) parity file makes fix refuse to start
        viol.append(("fix-refuses-unaligned-parity-size/v2-content", "%s: %s" % (label, r.err[-300:].decode("latin-1")), replay))
        return False
    if r.rc != 0 or nun != 0:
        viol.append(("fix-fails-within-redundancy", "%s: fix rc=%s error_unrecoverable=%s stderr=%s" %
                     (label, r.rc, nun, r.err[-400:].decode("latin-1")), replay))
        return False
    probs = scen.verify_tree(a, fs, state, allow_extra=True)
    probs = [p for p in probs if not (p["what"] == "mtime differs" and (p["disk"], p["sub"]) in retimed)]
    probs = [p for p in probs if not (p["what"] in ("content differs", "mtime differs") and (p["disk"], p["sub"]) in collided)]
    try:
        if probs and c_pre.hashsize < 16:
            # ... and a block REBUILT from a damaged parity block can pass the truncated hash the same way
            keep = []
            for p_ in probs:
                rec_ = [f_ for f_ in c_pre.files if f_.sub == p_["sub"] and n2i_[c_pre.disk_name(f_.disk)] == p_["disk"]]
                e_ = state.get(p_["disk"], {}).get(p_["sub"])
                hidden = False
                if p_["what"] == "content differs" and rec_ and e_ is not None and e_[0] == "file":
                    with open(fs.path(p_["disk"], p_["sub"]), "rb") as fh_:
                        disk_ = fh_.read()
                    bs_ = c_pre.blocksize
                    diff_ = [i_ for i_ in range(len(rec_[0].blocks)) if disk_[i_ * bs_:(i_ + 1) * bs_] != e_[1][i_ * bs_:(i_ + 1) * bs_]]
                    hidden = len(disk_) == len(e_[1]) and bool(diff_) and all(_dmg.recorded_hash_matches(c_pre, rec_[0], i_, disk_[i_ * bs_:(i_ + 1) * bs_]) for i_ in diff_)
                if hidden:
                    res["counters"]["files_with_damage_hidden_by_a_truncated_hash_collision"] = res["counters"].get("files_with_damage_hidden_by_a_truncated_hash_collision", 0) + 1
                else:
                    keep.append(p_)
            probs = keep
    except Exception:
        pass
    if retimed:
        res["counters"]["retimed_only_files"] = res["counters"].get("retimed_only_files", 0) + len(retimed)
    if probs:
        kinds = sorted({p["what"] for p in probs})
        why = ""
        try:
            if kinds == ["missing"] and not unrec and a.load_content().blockmax == 0:
                # diagnosis: the array holds no file block at all (only empty files, links, directories); fix returns before
                # the pass that recreates such entries
                why = "/array-without-any-file-block(fix-returns-before-recreating-empty-files-links-dirs)"
        except Exception:
            pass
        viol.append(("fix-wrong-result:" + kinds[0] + why, "%s: after fix (rc 0): %s" % (label, evidence.jsonable(probs[:4])), replay))
        return False
    r2 = a.cmd("check", variant=variant)
    for s in r2.san:
        viol.append(("sanitizer:" + A.san_key(s), "%s check: %s" % (label, s[:3000]), replay))
    errs = [t for t in r2.tags if t[0] in (b"error", b"parity_error", b"unrecoverable")]
    if r2.rc != 0 or errs:
        viol.append(("check-after-fix-fails", "%s: check after fix rc=%s errors=%s stderr=%s" %
                     (label, r2.rc, evidence.jsonable(errs[:3]), r2.err[-300:].decode("latin-1")), replay))
        return False
    return True


def run_case(case):
    seed, idx, tier = case
    rng = random.Random("c01-%d-%d" % (seed, idx))
    variant = "asan" if idx % 2 else "plain"
    res = dict(key=None, violations=[], counters={}, nontrivial=False)
    cfg = None
    if tier == "thorough" and idx % 50 == 7:
        cfg = scen.gen_config(rng, force=dict(nd=40, nlev=rng.choice([2, 4, 6]), ncontent=2), allow_splits=False)
    a, fs, state, hist, cfg = build_synced_array(rng, "c01", cfg, variant, twins=(idx % 3 == 0))
    tpl = None
    try:
        # negative control: the undamaged array must verify
        r0 = a.cmd("check", variant=variant)
        if r0.rc != 0:
            res["violations"].append(("check-fails-on-healthy-array", "check rc=%s on the freshly synced array: %s" %
                                      (r0.rc, r0.err[-300:].decode("latin-1")), {"case": list(case), "cfg": cfg, "history": hist}))
            return res
        c = a.load_content()
        tpl = Template(a)
        n = a.nlev
        devs = device_list(a)
        plans = []
        if tier == "thorough" and len(devs) <= 7:
            for k in range(1, n + 1):
                for sub in itertools.combinations(devs, k):
                    plans.append(("devices", list(sub)))
            res["counters"]["arrays_with_all_subsets"] = 1
        else:
            for _ in range(2):
                k = rng.randint(1, min(n, len(devs)))
                plans.append(("devices", rng.sample(devs, k)))
        plans.append(("stripes", n))
        # one file gone and another one under its name (rm X; mv Y X), on the disk that holds the twins if there are any
        tw = [d_ for d_ in a.disks if any(s_.startswith(b"twins/") for s_ in state.get(d_, {}))]
        # (first plan: it runs on the array as synced, where the inode numbers on disk are still the recorded ones - later plans
        # run on cp -a restored images with new inode numbers)
        plans.insert(0, ("devices", [("data", tw[0] if tw else rng.choice(a.disks), "rename-over")]))
        # parity files cut in the middle of their last blocks (the tail of the last stripes is often zero)
        plans.append(("paritycut", rng.sample(range(a.nlev), rng.randint(1, a.nlev))))
        if rng.random() < 0.3:
            plans.append(("devices", [("parity", l) for l in range(n)]))
        first = True
        nt = 0
        for pi, (ptype, parg) in enumerate(plans):
            if not first:
                tpl.restore()
            first = False
            prng = random.Random("c01-%d-%d-%d" % (seed, idx, pi))
            if ptype == "devices":
                desc, changed = apply_device_plan(a, fs, prng, state, parg)
            elif ptype == "paritycut":
                desc = []
                changed = False
                for l in parg:
                    used = [p for p in a.ppaths(l) if os.path.exists(p) and os.path.getsize(p) > c.blocksize]
                    if not used:
                        continue
                    p = used[-1]
                    sz = os.path.getsize(p)
                    cut = sz - prng.randint(0, min(3, sz // c.blocksize - 1)) * c.blocksize - prng.randint(1, c.blocksize - 1)
                    with open(p, "r+b") as fh:
                        fh.truncate(cut)
                    desc.append(("parity", l, "cut-mid-block", cut))
                    changed = True
            else:
                desc, nd_, coll = apply_stripe_plan(a, c, prng, parg)
                changed = nd_ > 0
                res["counters"]["stripe_blocks_damaged"] = res["counters"].get("stripe_blocks_damaged", 0) + nd_
                res["counters"]["hash_collisions_avoided"] = res["counters"].get("hash_collisions_avoided", 0) + coll
            replay = {"case": list(case), "cfg": cfg, "history": hist, "plan": [ptype, evidence.jsonable(desc)]}
            label = "plan %d %s %s" % (pi, ptype, evidence.jsonable(desc)[:6])
            res["counters"]["plans"] = res["counters"].get("plans", 0) + 1
            if changed:
                nt += 1
                res["counters"]["plans_nontrivial"] = res["counters"].get("plans_nontrivial", 0) + 1
            ok = judge_recovery(a, fs, state, variant, res, label, replay)
            if not ok:
                break
        res["nontrivial"] = nt > 0
        res["key"] = "%s|%s|%s" % (sorted(cfg.items()), hist, [(p[0], str(p[1])) for p in plans])
        res["sample"] = {"cfg": cfg, "history": [list(h) for h in hist], "plans": evidence.jsonable([(p[0], p[1]) for p in plans[:4]])}
        return res
    finally:
        if tpl:
            tpl.cleanup()
        a.cleanup()


def main(tier, seed, replay, jobs, scale):
    run = evidence.Run("C01", tier, seed, "exploration", RULE)
    if replay:
        import json
        cases = [tuple(json.load(open(replay))["replay"]["case"])]
    else:
        n = int((360 if tier == "quick" else 6000) * scale)
        cases = [(seed, i, tier) for i in range(n)]
    par.absorb(run, par.run_cases(run_case, cases, jobs))
    run.assumptions += ["one content copy outside the data disks always survives",
                        "mtime may differ only when another recorded file on that disk has the same size and time-stamp",
                        "damage that collides under a truncated hash is not injected (checked with the frozen reference hash)"]
    return run.finish(min_eval=max(1, len(cases) // 2), min_nontrivial=min(10, len(cases)))
