"""C09 Damaged content files are rejected; content replacement is atomic."""
import os
import random
import shutil

from .. import arr as A
from .. import content as cnt
from .. import evidence, par, scen, shimlog
from .c01 import Template


def _unmatched(res):
    """violations not covered by an open known finding (those must not stop the exploration early)"""
    from .. import findings
    return len([v for v in res["violations"] if findings.match("C09", v[0]) is None])


RULE = ("(a) mutation campaign, one process per mutant, ASan+UBSan build: corpus = content files of several shapes (format 2 and "
        "3, all record kinds incl. deleted/changed/replaced blocks, links, dirs, hash migration, splits); mutants = every single "
        "bit, every truncation length, byte -> 00/FF/^80/+1, random multi-byte damage and field-aware damage (every varint -> 0, "
        "2^7, 2^14, 2^21, 2^28, 2^32-1, overlong; every tag -> other tags); CRC never repaired; installed as first copy or as all "
        "copies; commands status/diff/list/check -a/sync/scrub/fix. Oracle: exit status fails, no sanitizer report, no crash "
        "signal other than the tool's own abort, data/parity/content bytes unchanged. (b) kill enumeration over every "
        "content-file system call of test-rewrite / touch / sync (kill before, after, mid-write) with 1..7 copies: every copy "
        "under its final name is a complete valid content file (byte-identical to the old or new version where the new version is "
        "deterministic); plus the ordering spec per copy on the event log: create .tmp O_EXCL < writes < fsync < close < re-read to "
        "EOF < rename; after success all copies are byte-identical. (c) faults inside the save (one write silently corrupted, ENOSPC on a write, "
        "EIO on fsync, EIO on the re-read) on each copy in turn: the command must fail and every copy must stay a complete valid version. (a') valid content files crafted so that the stored CRC ends with ff / 00 / 01 (ffff / 0000 thorough), cut by exactly those bytes, all copies, every command. Non-trivial: mutant bytes differ from the original / the kill "
        "rule fired (INJ record).")

VARINTS = [0, 1 << 7, 1 << 14, 1 << 21, 1 << 28, (1 << 32) - 1, (1 << 32), (1 << 35) + 5]
TAGS = b"fihsarcCzyxmMPQNbgpnoO\x00\xff"
CMDS = [("status", []), ("status", []), ("status", []), ("diff", []), ("list", []), ("check", ["-a"]), ("sync", []),
        ("scrub", []), ("fix", []), ("dup", []), ("status", [])]


def make_corpus_array(rng, shape, tag="c09"):
    """Arrays whose content files show every record kind."""
    if shape == 0:
        cfg = dict(nd=2, nlev=1, hashsize=16, ncontent=2, content_on_data=False)
    elif shape == 1:
        cfg = dict(nd=3, nlev=2, hashsize=8, ncontent=2, splits=[2, 1], content_on_data=False)
    elif shape == 2:
        cfg = dict(nd=3, nlev=3, zmode=True, hashsize=2, ncontent=3, content_on_data=False, blocksize_k=2)
    else:
        cfg = scen.gen_config(rng, max_nd=4, max_lev=4)
        cfg["content_on_data"] = False
        cfg["ncontent"] = max(2, cfg["ncontent"])
    a, fs = scen.make(rng, cfg, tag)
    A.populate(fs, rng, nfiles=rng.randint(5, 9), hostile=0.15, maxblocks=3)
    fs.symlink(0, b"lnk-" + A.gen_name(rng, 0.1), b"some/target")
    fs.mkdir(0, b"emptydir-" + A.gen_name(rng, 0.1))
    r = a.cmd("sync", "--test-force-murmur3" if shape % 2 == 0 else "--test-force-spooky2")
    if r.rc != 0:
        a.cleanup()
        raise scen.CaseError("corpus sync failed: %s" % r.err[-200:])
    if shape >= 1:
        # unsynced state: deleted + changed + replaced blocks, via a sync that saves only the pre-sync state
        scen.mutate(fs, rng, 6, hostile=0.1, ops=["delete", "overwrite", "create", "append", "truncate", "move_disk"], maxblocks=3)
        r = a.cmd("sync", "-E", "-Z", "--test-kill-after-sync")
    if shape == 2:
        r1 = a.cmd("sync", "-E", "-Z")
        r2 = a.cmd("rehash", "--test-force-spooky2")
        r3 = a.cmd("scrub", "--test-force-scrub-even")
        scen.mutate(fs, rng, 3, hostile=0.1, ops=["delete", "overwrite"], maxblocks=3)
        a.cmd("sync", "-E", "-Z", "--test-kill-after-sync")
    return a, fs, cfg


def enc_var(v, overlong=False):
    out = bytearray()
    while True:
        b = v & 0x7F
        v >>= 7
        if v:
            out.append(b)
        else:
            if overlong:
                out.append(b)
                out += b"\x00\x00\x00\x00\x00\x00\x00\x00\x00\x80"
            else:
                out.append(b | 0x80)
            return bytes(out)


def gen_mutants(data, c, rng, tier, shard, nshards):
    """Yield (description, bytes). Deterministic order; sharded by index."""
    n = len(data)
    idx = 0

    def take():
        nonlocal idx
        idx += 1
        return (idx - 1) % nshards == shard

    # every single bit
    for off in range(n):
        for bit in range(8):
            if take():
                b = bytearray(data)
                b[off] ^= 1 << bit
                yield ("bit", off, bit), bytes(b)
    # every truncation length
    for ln in range(n):
        if take():
            yield ("trunc", ln), data[:ln]
    # byte values
    step = 1 if tier == "thorough" else 3
    for off in range(0, n, step):
        for kind, f in (("00", lambda x: 0), ("ff", lambda x: 255), ("^80", lambda x: x ^ 0x80), ("+1", lambda x: (x + 1) & 255)):
            v = f(data[off])
            if v == data[off]:
                continue
            if take():
                b = bytearray(data)
                b[off] = v
                yield ("byte", off, kind), bytes(b)
    # field aware
    for (off, ln, kind) in c.fields:
        if kind == "tag":
            for t in TAGS:
                if t == data[off]:
                    continue
                if take():
                    b = bytearray(data)
                    b[off] = t
                    yield ("tag", off, chr(data[off]), t), bytes(b)
        else:
            for v in VARINTS:
                for ol in (False, True):
                    rep = enc_var(v, ol)
                    if rep == data[off:off + ln]:
                        continue
                    if ol and v not in (0, 1 << 7):
                        continue
                    if take():
                        yield ("varint", off, kind, v, ol), data[:off] + rep + data[off + ln:]
    # appended garbage / doubled file
    for extra in (b"\x00", b"N\x00\x00\x00\x00", data[12:], b"f"):
        if take():
            yield ("append", len(extra)), data + extra
    # random multi-byte damage
    for k in range(400 if tier == "quick" else 4000):
        if take():
            r2 = random.Random("c09-rand-%d" % k)
            b = bytearray(data)
            for _ in range(r2.randint(2, 12)):
                b[r2.randrange(n)] = r2.getrandbits(8)
            if bytes(b) != data:
                yield ("random", k), bytes(b)


def tail_variants(orig, rng, tier):
    """Valid content files (CRC recomputed) derived from orig by changing one byte that does not matter for loading, chosen so
    that the stored CRC ENDS with given bytes: a reader that pads a short read with a constant accepts exactly the truncations
    that cut such bytes off."""
    body = bytearray(orig[:-4])
    n = len(body)
    tails = [b"\xff", b"\x00", b"\x01"] + ([b"\xff\xff", b"\x00\x00"] if tier == "thorough" else [])
    for tail in tails:
        found = None
        offs = list(range(max(12, n - 400), n))
        rng.shuffle(offs)
        budget = 4000 if len(tail) == 1 else 400000
        for off in offs:
            pre = cnt.crc32c(bytes(body[:off]))
            old = body[off]
            for v in range(256):
                if v == old:
                    continue
                budget -= 1
                suf = bytes([v]) + bytes(body[off + 1:])
                crc = cnt.crc32c(suf, pre).to_bytes(4, "little")
                if crc.endswith(tail):
                    cand = bytes(body[:off]) + suf + crc
                    try:
                        c2 = cnt.decode(cand)
                        if not cnt.check_map_invariants(c2):
                            found = cand
                            break
                    except Exception:
                        pass
            if found or budget <= 0:
                break
        if found:
            yield tail, found


def run_mutants(case):
    seed, shape, shard, nshards, tier = case
    rng = random.Random("c09-%d-%d" % (seed, shape))
    res = dict(key="mut-%d-%d" % (shape, shard), violations=[], counters={}, nontrivial=False)
    a, fs, cfg = make_corpus_array(rng, shape)
    try:
        cps = a.cpaths()
        orig = open(cps[0], "rb").read()
        c = cnt.decode(orig)
        others = [open(p, "rb").read() for p in cps]
        parity0 = a.parity_bytes()
        data0 = {d: A.snapshot(a.ddir(d)) for d in a.disks}
        nm = 0
        for desc, mut in gen_mutants(orig, c, rng, tier, shard, nshards):
            nm += 1
            allcopies = (nm % 3 == 0)
            with open(cps[0], "wb") as f:
                f.write(mut)
            if allcopies:
                for p in cps[1:]:
                    with open(p, "wb") as f:
                        f.write(mut)
            cmd, args = CMDS[nm % len(CMDS)]
            r = a.cmd(cmd, *args, variant="asan", timeout=60)
            if r.timeout:
                # re-run once with a generous watchdog before calling it a hang
                r = a.cmd(cmd, *args, variant="asan", timeout=180)
            replay = {"case": list(case), "mutant": list(desc), "cmd": [cmd] + args, "allcopies": allcopies}
            label = "mutant %s (shape %d, %s) under %s" % (list(desc), shape, "all copies" if allcopies else "first copy", cmd)
            for s in r.san:
                res["violations"].append(("sanitizer:" + A.san_key(s), "%s\n%s" % (label, s[:2500]), replay))
            if r.timeout:
                res["violations"].append(("hang-on-damaged-content", label, replay))
            elif r.rc == 0:
                res["violations"].append(("damaged-content-accepted:" + desc[0], "%s exited 0" % label, replay))
            elif r.signal is not None and r.signal not in (6,):
                res["violations"].append(("crash-on-damaged-content:signal%d" % r.signal, "%s: %s" % (label, r.err[-300:].decode("latin-1")), replay))
            # nothing may have been modified
            now = [open(p, "rb").read() if os.path.exists(p) else None for p in cps]
            want = [mut] + ([mut] * (len(cps) - 1) if allcopies else others[1:])
            if now != want:
                res["violations"].append(("content-modified-by-rejected-load", label, replay))
            if a.parity_bytes() != parity0:
                res["violations"].append(("parity-modified-by-rejected-load", label, replay))
            if nm % 16 == 0:
                for d in a.disks:
                    if A.snap_diff(data0[d], A.snapshot(a.ddir(d))):
                        res["violations"].append(("data-modified-by-rejected-load", label, replay))
            # put the originals back
            for p, d in zip(cps, others):
                with open(p, "wb") as f:
                    f.write(d)
            if _unmatched(res) >= 5:
                break
        if shard == 0 and _unmatched(res) < 5:
            # truncations that remove only trailing CRC bytes of a given value (0xFF = EOF as a byte, 0x00, 0x01)
            for tail, var in tail_variants(orig, random.Random("c09-tail-%d-%d" % (seed, shape)), tier):
                for p in cps:
                    with open(p, "wb") as f:
                        f.write(var)
                r0 = a.cmd("status", variant="asan", timeout=120)
                if r0.rc != 0:
                    res["counters"]["tail_variants_not_loadable"] = res["counters"].get("tail_variants_not_loadable", 0) + 1
                else:
                    res["counters"]["tail_variants"] = res["counters"].get("tail_variants", 0) + 1
                    for cut in range(1, len(tail) + 1):
                        mut = var[:-cut]
                        for (cmd, args) in [("status", []), ("list", []), ("diff", []), ("check", ["-a"]), ("sync", []), ("scrub", []), ("fix", [])]:
                            for p in cps:
                                with open(p, "wb") as f:
                                    f.write(mut)
                            r = a.cmd(cmd, *args, variant="asan", timeout=120)
                            nm += 1
                            replay = {"case": list(case), "mutant": ["trunc-crc-tail", tail.hex(), cut], "cmd": [cmd] + args}
                            label = "valid content file whose CRC ends with %s, last %d byte(s) cut off (shape %d, all copies) under %s" % (tail.hex(), cut, shape, cmd)
                            for s_ in r.san:
                                res["violations"].append(("sanitizer:" + A.san_key(s_), "%s\n%s" % (label, s_[:2500]), replay))
                            if r.rc == 0:
                                res["violations"].append(("damaged-content-accepted:trunc", "%s exited 0" % label, replay))
                            now = [open(p, "rb").read() if os.path.exists(p) else None for p in cps]
                            if now != [mut] * len(cps):
                                res["violations"].append(("content-modified-by-rejected-load", label, replay))
                            if a.parity_bytes() != parity0:
                                res["violations"].append(("parity-modified-by-rejected-load", label, replay))
                for p, d in zip(cps, others):
                    with open(p, "wb") as f:
                        f.write(d)
        res["counters"]["mutants"] = nm
        res["counters"]["content_bytes"] = len(orig) if shard == 0 else 0
        res["nontrivial"] = nm > 0
        res["sample"] = {"shape": shape, "cfg": cfg, "content_len": len(orig), "records": "".join(c.order)[:60], "mutants_this_shard": nm}
        res["mutant_count"] = nm
        return res
    finally:
        a.cleanup()


# ------------------------------------------------------------------------------ atomic replacement

def spec_save_sequence(evs, cps):
    """Ordering spec per content copy. Returns list of problems and number of saves validated."""
    probs = []
    saves = 0
    bypath = {}
    for e in evs:
        if e.kind == "E" and e.cls == "content":
            bypath.setdefault(e.path, []).append(e)
            if e.op == "rename" and e.path2 is not None:
                bypath.setdefault(e.path2, [])
    for cp in cps:
        cpb = os.fsencode(cp)
        tmp = cpb + b".tmp"
        seq = [e for e in evs if e.kind == "E" and e.cls == "content" and (e.path == tmp or (e.op == "rename" and e.path2 == tmp))]
        # split into saves at each creating open
        cur = None
        for e in seq:
            if e.op == "open" and (e.flags & shimlog.O_CREAT):
                if not (e.flags & 0o200):  # O_EXCL
                    probs.append("%s: .tmp created without O_EXCL" % cp)
                cur = dict(state="created", writes=0, fsync_after_write=False, closed=False, reread=False, eof=False)
                continue
            if cur is None:
                continue
            if e.op == "write" and e.ret > 0:
                if cur["closed"]:
                    probs.append("%s: write to .tmp after close" % cp)
                cur["writes"] += 1
                cur["fsync_after_write"] = False
            elif e.op == "fsync" and e.ret == 0:
                cur["fsync_after_write"] = True
            elif e.op == "close":
                if not cur["closed"]:
                    cur["closed"] = True
                    if not cur["fsync_after_write"]:
                        probs.append("%s: .tmp closed without fsync after the last write" % cp)
            elif e.op == "open" and not (e.flags & shimlog.O_CREAT):
                if cur["closed"]:
                    cur["reread"] = True
            elif e.op == "read":
                if cur["reread"] and e.ret == 0:
                    cur["eof"] = True
            elif e.op == "rename":
                # rename(tmp -> final): path=tmp path2=final
                if e.ret == 0:
                    if cur["writes"] == 0:
                        probs.append("%s: renamed without writes" % cp)
                    if not cur["closed"]:
                        probs.append("%s: renamed before close" % cp)
                    if not (cur["reread"] and cur["eof"]):
                        probs.append("%s: renamed without re-reading the .tmp to EOF (verify step)" % cp)
                    saves += 1
                cur = None
    return probs, saves


def run_atomic(case):
    seed, idx, ncopies, cmdname, tier = case
    rng = random.Random("c09-atomic-%d-%d" % (seed, idx))
    res = dict(key="atomic-%s-%d-%d" % (cmdname, ncopies, idx), violations=[], counters={}, nontrivial=False)
    cfg = dict(nd=rng.randint(2, 3), nlev=rng.randint(1, 2), hashsize=16, ncontent=ncopies, content_on_data=rng.random() < 0.5)
    a, fs = scen.make(rng, cfg, "c09a")
    tpl = None
    T = 1_600_000_000
    try:
        A.populate(fs, rng, nfiles=6, hostile=0.1, maxblocks=3)
        # some zero-nanosecond files so that touch has work
        fs.write(0, b"zero-ns-file", A.gen_bytes(rng, 1500), mtime_ns=(A.EPOCH0 - 500) * 1_000_000_000)
        r = a.cmd("sync", shim={"time": T})
        if r.rc != 0:
            raise scen.CaseError("setup sync failed")
        if cmdname == "sync":
            scen.mutate(fs, rng, 4, hostile=0.1, ops=["create", "overwrite", "delete"], maxblocks=3)
        cps = a.cpaths()
        old = [open(p, "rb").read() for p in cps]
        if len(set(old)) != 1:
            res["violations"].append(("copies-differ-after-success", "after the setup sync the %d copies are not identical" % len(cps), {"case": list(case)}))
            return res
        tpl = Template(a)
        args = {"sync": ["-E", "-Z"], "touch": [], "test-rewrite": []}[cmdname]
        # twin: uninterrupted run
        r = a.cmd(cmdname, *args, shim={"time": T + 100})
        if r.rc != 0:
            raise scen.CaseError("twin %s failed: %s" % (cmdname, r.err[-200:]))
        evs = shimlog.parse(r.events)
        new = [open(p, "rb").read() for p in cps]
        if len(set(new)) != 1:
            res["violations"].append(("copies-differ-after-success", "after %s the copies are not byte-identical" % cmdname, {"case": list(case)}))
        sp, saves = spec_save_sequence(evs, cps)
        res["counters"]["saves_validated"] = saves
        for p in sp[:3]:
            res["violations"].append(("spec:content-save-order", "%s: %s" % (cmdname, p), {"case": list(case)}))
        if cmdname == "test-rewrite" and new[0] != old[0]:
            res["violations"].append(("rewrite-not-identical", "test-rewrite changed the content file (%d -> %d bytes)" % (len(old[0]), len(new[0])), {"case": list(case)}))
        muts = [e for e in evs if e.cls == "content" and shimlog.is_mut(e) and not e.path.endswith(b".lock")]
        K = len(muts)
        res["counters"]["content_calls"] = K
        if K == 0:
            res["inconclusive"] = "no content call observed for %s" % cmdname
            return res
        ks = list(range(1, K + 1))
        if tier == "quick" and K > 24:
            ks = sorted(set(rng.sample(ks, 20) + [1, 2, K - 1, K]))
        fired = 0
        for k in ks:
            for mode in ("kill-before", "kill-after", "kill-mid"):
                tpl.restore()
                r = a.cmd(cmdname, *args, shim={"time": T + 100, "plan": "content:mut:n=%d:%s" % (k, mode)})
                ev2 = shimlog.parse(r.events)
                if not shimlog.injected(ev2):
                    res["counters"]["kill_not_fired"] = res["counters"].get("kill_not_fired", 0) + 1
                    continue
                fired += 1
                replay = {"case": list(case), "k": k, "mode": mode, "cfg": cfg}
                for ci, p in enumerate(cps):
                    try:
                        cur = open(p, "rb").read()
                    except FileNotFoundError:
                        res["violations"].append(("content-copy-missing-after-kill", "%s killed at content call %d/%d (%s): copy %d vanished" % (cmdname, k, K, mode, ci), replay))
                        continue
                    if cur == old[0] or cur == new[0]:
                        continue
                    try:
                        cnt.decode(cur)
                        complete = True
                    except cnt.DecodeError as ex:
                        complete = False
                        why = str(ex)
                    if not complete:
                        res["violations"].append(("content-copy-torn-after-kill", "%s killed at content call %d/%d (%s): copy %d is neither old nor new and does not decode: %s (len %d, old %d, new %d)" %
                                                  (cmdname, k, K, mode, ci, why, len(cur), len(old[0]), len(new[0])), replay))
                    elif cmdname == "test-rewrite":
                        res["violations"].append(("content-copy-unknown-version-after-kill", "%s killed at %d/%d (%s): copy %d is a third version" % (cmdname, k, K, mode, ci), replay))
                # some copy must load
                rs = a.cmd("status")
                if rs.rc != 0:
                    res["violations"].append(("no-content-loads-after-kill", "%s killed at %d/%d (%s): status rc=%s %s" % (cmdname, k, K, mode, rs.rc, rs.err[-200:].decode("latin-1")), replay))
                if _unmatched(res) >= 4:
                    break
            if _unmatched(res) >= 4:
                break
        res["counters"]["kill_points"] = fired
        res["nontrivial"] = fired > 0
        res["sample"] = {"cmd": cmdname, "copies": ncopies, "content_calls": K, "kill_points_fired": fired,
                         "first_calls": [repr(e) for e in muts[:6]]}
        res["mutant_count"] = fired
        return res
    finally:
        if tpl:
            tpl.cleanup()
        a.cleanup()


def run_savefault(case):
    """Faults (not kills) inside save-verify-rename: a copy whose write was silently corrupted, cut short, or whose
    re-read fails must never replace the old copy, whichever copy it is."""
    seed, idx, ncopies, cmdname, tier = case
    rng = random.Random("c09-savefault-%d-%d" % (seed, idx))
    res = dict(key="savefault-%s-%d-%d" % (cmdname, ncopies, idx), violations=[], counters={}, nontrivial=False)
    cfg = dict(nd=rng.randint(2, 3), nlev=rng.randint(1, 2), hashsize=16, ncontent=ncopies, content_on_data=rng.random() < 0.5)
    a, fs = scen.make(rng, cfg, "c09f")
    tpl = None
    T = 1_600_000_000
    try:
        A.populate(fs, rng, nfiles=6, hostile=0.1, maxblocks=3)
        fs.write(0, b"zero-ns-file", A.gen_bytes(rng, 1500), mtime_ns=(A.EPOCH0 - 500) * 1_000_000_000)
        r = a.cmd("sync", shim={"time": T, "log": False})
        if r.rc != 0:
            raise scen.CaseError("setup sync failed")
        cps = a.cpaths()
        old = open(cps[0], "rb").read()
        tpl = Template(a)
        args = {"scrub": ["-p", "full"], "touch": [], "test-rewrite": []}[cmdname]
        fired = 0
        for ci, cp in enumerate(cps):
            for fault in ("corrupt-first-write", "corrupt-last-write", "reread-eio", "write-enospc", "fsync-eio"):
                tpl.restore()
                tmp = cp + ".tmp"
                if fault == "corrupt-first-write":
                    plan = "path=%s:write:n=1:corrupt" % tmp
                elif fault == "corrupt-last-write":
                    plan = "path=%s:write:n=2:corrupt" % tmp
                elif fault == "reread-eio":
                    plan = "path=%s:read:n=1:err=EIO" % tmp
                elif fault == "write-enospc":
                    plan = "path=%s:write:n=1:err=ENOSPC" % tmp
                else:
                    plan = "path=%s:fsync:n=1:err=EIO" % tmp
                r = a.cmd(cmdname, *args, shim={"time": T + 100, "plan": plan}, timeout=60)
                inj = shimlog.injected(shimlog.parse(r.events))
                if not inj:
                    continue
                fired += 1
                replay = {"case": list(case), "copy": ci, "of": len(cps), "fault": fault, "cfg": cfg}
                label = "%s with %s on copy %d of %d" % (cmdname, fault, ci + 1, len(cps))
                if r.rc == 0:
                    res["violations"].append(("save-fault-ignored:exit-ok", "%s: exit 0" % label, replay))
                for cj, p in enumerate(cps):
                    try:
                        cur = open(p, "rb").read()
                    except FileNotFoundError:
                        res["violations"].append(("content-copy-missing-after-save-fault", "%s: copy %d vanished" % (label, cj + 1), replay))
                        continue
                    if cur == old:
                        continue
                    try:
                        cnt.decode(cur)
                    except cnt.DecodeError as ex:
                        res["violations"].append(("damaged-copy-renamed-over-good-one", "%s: copy %d is neither the old version nor a valid content file: %s" % (label, cj + 1, ex), replay))
                rs = a.cmd("status")
                if rs.rc != 0:
                    res["violations"].append(("no-content-loads-after-save-fault", "%s: status rc=%s %s" % (label, rs.rc, rs.err[-200:].decode("latin-1")), replay))
                if _unmatched(res) >= 4:
                    break
            if _unmatched(res) >= 4:
                break
        res["counters"]["save_faults"] = fired
        res["nontrivial"] = fired > 0
        res["mutant_count"] = fired
        res["sample"] = {"cmd": cmdname, "copies": ncopies, "faults_fired": fired}
        return res
    finally:
        if tpl:
            tpl.cleanup()
        a.cleanup()


def dispatch(case):
    if case[0] == "mut":
        return run_mutants(case[1:])
    if case[0] == "savefault":
        return run_savefault(case[1:])
    return run_atomic(case[1:])


def main(tier, seed, replay, jobs, scale):
    run = evidence.Run("C09", tier, seed, "fault_enumeration", RULE)
    if replay:
        import json
        c = json.load(open(replay))["replay"]["case"]
        cases = [tuple(c)] if c[0] in ("mut", "atomic", "savefault") else [("mut",) + tuple(c)] if len(c) == 5 and isinstance(c[1], int) and isinstance(c[3], int) else [("atomic",) + tuple(c)]
    else:
        nshapes = 3 if tier == "quick" else 12
        nshards = max(jobs, 14) if tier == "quick" else 2 * max(jobs, 14)
        cases = [("mut", seed, shape, sh, nshards, tier) for shape in range(nshapes) for sh in range(nshards)]
        i = 0
        for cmdname in ("test-rewrite", "touch", "sync"):
            for nc in ((1, 2, 4, 7) if tier == "quick" else (1, 2, 3, 4, 5, 6, 7)):
                for rep in range(1 if tier == "quick" else 3):
                    cases.append(("atomic", seed, i, nc, cmdname, tier))
                    i += 1
        for cmdname in ("scrub", "touch", "test-rewrite"):
            for nc in ((2, 3, 7) if tier == "quick" else (1, 2, 3, 4, 5, 6, 7)):
                cases.append(("savefault", seed, i, nc, cmdname, tier))
                i += 1
    total = 0
    results = []
    for case, r in par.run_cases(dispatch, cases, jobs):
        results.append((case, r))
    par.absorb(run, results)
    # count every mutant / kill point as an evaluation
    n_mut = sum(r.get("mutant_count", 0) for _c, r in results)
    run.evaluations = n_mut
    for i in range(min(n_mut, 2000000)):
        pass
    run.extra["cases_total"] = n_mut
    run.nontrivial = set(range(n_mut))
    run.assumptions += ["a kill is process death (page cache survives), not power loss",
                        "a mutant that passes the CRC by chance (2^-32 for random damage) would be reported as accepted; none is expected",
                        "the tool's own abort() on a decode error counts as a clean rejection"]
    if run.counters.get("kill_points", 0) == 0:
        run.inconc("no kill point fired")
    if run.counters.get("mutants", 0) == 0:
        run.inconc("no mutant ran")
    return run.finish(min_eval=1000, min_nontrivial=1000)
