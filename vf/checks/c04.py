"""C04 Every silent corruption of synced data or parity is detected and located."""
import os
import random

from .. import arr as A
from .. import content as cnt
from .. import dmg, evidence, par, scen
from ..content import BLK
from .c01 import build_synced_array


def _unmatched(res):
    """violations not covered by an open known finding (those must not stop the exploration early)"""
    from .. import findings
    return len([v for v in res["violations"] if findings.match("C04", v[0]) is None])


RULE = ("per array (random configuration incl. reduced hash sizes and a hash migration in progress): negative control first "
        "(check, check -a, scrub on the undamaged array: no error, nothing marked), then one corruption at a time, undone "
        "afterwards: every block of every file (first, middle, last partial) and every parity block of every level whose stripe "
        "holds a file, shapes bit/byte/block/zero/ones, swaps of two blocks, and combinations of 2..N+1 blocks in one stripe or "
        "in distinct stripes; commands check, check -a, scrub -p full|new|100 -o 0 (covering) and scrub -p bad (not covering). "
        "Oracle: the set of error:/parity_error: tags (position, disk, file, file position / level) equals the set predicted from "
        "the decoded block map, the exit status fails, scrub's bad marks (status -G block: lines, summary:has_bad and decoded info "
        "words) equal the damaged stripes. Corruptions that leave the bytes equal or collide under a truncated hash are trivial. "
        "distinct_nontrivial = distinct (array, target set, shape, command) that changed bytes.")

SHAPES = ["bit", "byte", "block", "zero", "ones"]


def levname(l):
    return A.LEVNAMES[l]


def observed_errors(r):
    data = set()
    par_ = set()
    other = []
    for t in r.tags:
        if t[0] == b"error" and len(t) >= 5:
            msg = t[4]
            if msg.startswith(b" Data error at position "):
                fp = int(msg[len(b" Data error at position "):].split(b",")[0])
                data.add((int(t[1]), t[2], t[3], fp))
            else:
                other.append(t)
        elif t[0] == b"parity_error" and len(t) >= 4:
            if t[3].startswith(b" Data error"):
                par_.add((int(t[1]), t[2]))
            elif t[3] in (b"hash", b"parity"):
                pass  # log of a failed recovery strategy (names a combination tried), not a location claim
            else:
                other.append(t)
        elif t[0] in (b"unrecoverable",):
            pass
    return data, par_, other


def bad_marks(a, variant):
    r = a.cmd("status", "-G", variant=variant)
    bad = set()
    for t in r.tag("block"):
        if len(t) >= 6 and t[5] == b"bad":
            bad.add(int(t[1]))
    hb = r.summary("has_bad")
    nbad = int(hb[0]) if hb else -1
    c = a.load_content()
    dec = {i for i, v in enumerate(c.info) if v is not None and v[1]}
    return bad, nbad, dec


class Undo:
    def __init__(self):
        self.items = []

    def save(self, path):
        st = os.lstat(path)
        with open(path, "rb") as f:
            self.items.append((path, f.read(), st.st_atime_ns, st.st_mtime_ns))

    def restore(self):
        for path, data, at, mt in reversed(self.items):
            with open(path, "wb") as f:
                f.write(data)
            os.utime(path, ns=(at, mt))
        self.items = []


def file_path(a, c, f):
    d = a.disk_names.index(c.disk_name(f.disk).decode())
    return os.path.join(os.fsencode(a.ddir(d)), f.sub)


def run_case(case):
    seed, idx, tier = case
    rng = random.Random("c04-%d-%d" % (seed, idx))
    variant = "asan" if idx % 3 == 2 else "plain"
    res = dict(key=None, violations=[], counters={}, nontrivial=False)
    cfg = scen.gen_config(rng, max_nd=5)
    a, fs, state, hist, cfg = build_synced_array(rng, "c04", cfg, variant, rounds=rng.randint(0, 2))
    nt = set()

    def V(key, desc, extra=None):
        res["violations"].append((key, desc, {"case": list(case), "cfg": cfg, "history": hist, "detail": evidence.jsonable(extra)}))

    try:
        c = a.load_content()
        content_backup = a.content_bytes()
        cps = a.cpaths()

        def restore_content():
            for p, d in zip(cps, content_backup):
                if d is not None:
                    with open(p, "wb") as f:
                        f.write(d)

        # ---- negative controls
        for cmd, args in (("check", []), ("check", ["-a"]), ("scrub", ["-p", "full"])):
            r = a.cmd(cmd, *args, variant=variant)
            for s in r.san:
                V("sanitizer:" + A.san_key(s), s[:3000])
            d_, p_, o_ = observed_errors(r)
            if r.rc != 0 or d_ or p_ or o_:
                V("false-error-on-healthy-array:" + cmd + "".join(args), "%s %s on the undamaged array: rc=%s tags=%s" %
                  (cmd, args, r.rc, evidence.jsonable(list(d_)[:2] + list(p_)[:2] + o_[:2])))
                return res
            res["counters"]["negative_controls"] = res["counters"].get("negative_controls", 0) + 1
        bad, nbad, dec = bad_marks(a, variant)
        if bad or nbad != 0 or dec:
            V("bad-mark-on-healthy-array", "after scrub of the undamaged array: block bad=%s has_bad=%s decoded=%s" % (sorted(bad), nbad, sorted(dec)))
            return res
        restore_content()

        sm = c.stripe_map()
        # targets: data blocks (BLK) and parity blocks of stripes that hold a file
        dtargets = [(f, i) for f in c.files for i, (pos, st, h) in enumerate(f.blocks) if st == BLK]
        ptargets = [(l, pos) for pos in sorted(sm) if any(e[1] == "file" for e in sm[pos]) for l in range(a.nlev)]
        if not dtargets:
            res["inconclusive"] = "array without data blocks"
            return res
        plans = []
        quick = tier == "quick"
        dsel = dtargets if len(dtargets) <= (40 if quick else 400) else rng.sample(dtargets, 40 if quick else 400)
        for (f, i) in dsel:
            for sh in rng.sample(SHAPES, 2 if quick else 5):
                plans.append(([("d", f, i, sh)], "check"))
            plans.append(([("d", f, i, rng.choice(SHAPES))], rng.choice(["check-a", "scrub-full", "scrub-new", "scrub-100", "scrub-bad"])))
        psel = ptargets if len(ptargets) <= (40 if quick else 400) else rng.sample(ptargets, 40 if quick else 400)
        for (l, pos) in psel:
            plans.append(([("p", l, pos, rng.choice(SHAPES))], "check"))
            plans.append(([("p", l, pos, rng.choice(SHAPES))], rng.choice(["check-a", "scrub-full", "scrub-new", "scrub-100", "scrub-bad"])))
        # combinations in one stripe (2..N+1) and in distinct stripes
        for _ in range(6 if quick else 40):
            pos = rng.choice(sorted(sm))
            ents = [e for e in sm[pos] if e[1] == "file" and e[4] == BLK]
            cands = [("d", e[2], e[3], rng.choice(SHAPES)) for e in ents] + [("p", l, pos, rng.choice(SHAPES)) for l in range(a.nlev)]
            k = rng.randint(2, min(len(cands), a.nlev + 1)) if len(cands) >= 2 else 0
            if k >= 2:
                plans.append((rng.sample(cands, k), rng.choice(["check", "check", "scrub-full", "check-a"])))
        for _ in range(4 if quick else 30):
            poss = rng.sample(sorted(sm), min(len(sm), rng.randint(2, 4)))
            items = []
            for pos in poss:
                ents = [e for e in sm[pos] if e[1] == "file" and e[4] == BLK]
                cands = [("d", e[2], e[3], rng.choice(SHAPES)) for e in ents] + [("p", l, pos, rng.choice(SHAPES)) for l in range(a.nlev)]
                items.append(rng.choice(cands))
            plans.append((items, rng.choice(["check", "scrub-full", "check-a"])))
        # a silent corruption in a stripe that also holds a block of a file changed since the last sync
        # (scrub must still mark the stripe bad; stripes that only differ because of the unsynced file must not be marked)
        for _ in range(4 if quick else 30):
            (f, i) = rng.choice(dtargets)
            pos = f.blocks[i][0]
            neigh = [e for e in sm[pos] if e[1] == "file" and e[2] is not f and e[4] == BLK and e[2].size > 0]
            if neigh:
                g = rng.choice(neigh)[2]
                plans.append(([("d", f, i, rng.choice(SHAPES)), ("unsynced", g)], "scrub-full"))
        # swaps of two full blocks
        full = [(f, i) for (f, i) in dtargets if (i + 1) * c.blocksize <= f.size]
        for _ in range(4 if quick else 30):
            if len(full) >= 2:
                (f1, i1), (f2, i2) = rng.sample(full, 2)
                plans.append(([("swap", f1, i1, f2, i2)], rng.choice(["check", "scrub-full", "check-a"])))

        for items, cmdk in plans:
            undo = Undo()
            exp_data = set()
            exp_par = set()
            stripes = {}
            applied = 0
            trivial = False
            unsynced = None
            unsynced_pos = set()
            for it in items:
                if it[0] == "d":
                    _, f, i, sh = it
                    p = file_path(a, c, f)
                    undo.save(p)
                    r_ = dmg.damage_file_block(a, c, f, i, rng, sh)
                    if r_ == "ok":
                        applied += 1
                        pos = f.blocks[i][0]
                        exp_data.add((pos, c.disk_name(f.disk), f.sub, i))
                        stripes.setdefault(pos, []).append("d")
                    elif r_ in ("collision",):
                        res["counters"]["hash_collisions_avoided"] = res["counters"].get("hash_collisions_avoided", 0) + 1
                        trivial = True
                    else:
                        trivial = trivial or r_ == "same"
                elif it[0] == "p":
                    _, l, pos, sh = it
                    from .. import parity as P
                    v = P.parity_views(a, c)[l]
                    si, _off = v.locate(pos)
                    if si is None or v.paths[si] is None or not os.path.exists(v.paths[si]):
                        continue
                    undo.save(v.paths[si])
                    r_ = dmg.damage_parity_block(a, c, l, pos, rng, sh)
                    if r_ == "ok":
                        applied += 1
                        exp_par.add((pos, levname(l).encode()))
                        stripes.setdefault(pos, []).append("p")
                elif it[0] == "unsynced":
                    g = it[1]
                    pg = file_path(a, c, g)
                    undo.save(pg)
                    st_ = os.lstat(pg)
                    with open(pg, "r+b") as fh:
                        old_ = fh.read()
                        new_ = bytes((b ^ 0xA5) for b in old_)
                        fh.seek(0)
                        fh.write(new_)
                    os.utime(pg, ns=(st_.st_atime_ns, st_.st_mtime_ns + 7_000_000_000))
                    unsynced = g
                    for bi, (gpos, gst, _gh) in enumerate(g.blocks):
                        exp_data.add((gpos, c.disk_name(g.disk), g.sub, bi))
                        unsynced_pos.add(gpos)
                else:
                    _, f1, i1, f2, i2 = it
                    undo.save(file_path(a, c, f1))
                    if file_path(a, c, f2) != file_path(a, c, f1):
                        undo.save(file_path(a, c, f2))
                    r_ = dmg.swap_file_blocks(a, c, f1, i1, f2, i2)
                    if r_ == "ok":
                        applied += 2
                        for (f, i) in ((f1, i1), (f2, i2)):
                            pos = f.blocks[i][0]
                            exp_data.add((pos, c.disk_name(f.disk), f.sub, i))
                            stripes.setdefault(pos, []).append("d")
            res["counters"]["plans"] = res["counters"].get("plans", 0) + 1
            if applied == 0:
                res["counters"]["plans_trivial"] = res["counters"].get("plans_trivial", 0) + 1
                undo.restore()
                continue
            # ---- run the command
            if cmdk == "check":
                cmd, args = "check", []
            elif cmdk == "check-a":
                cmd, args = "check", ["-a"]
            elif cmdk == "scrub-full":
                cmd, args = "scrub", ["-p", "full"]
            elif cmdk == "scrub-new":
                cmd, args = "scrub", ["-p", "new"]
            elif cmdk == "scrub-100":
                cmd, args = "scrub", ["-p", "100", "-o", "0"]
            else:
                cmd, args = "scrub", ["-p", "bad"]
            r = a.cmd(cmd, *args, variant=variant)
            for s in r.san:
                V("sanitizer:" + A.san_key(s), s[:3000])
            od, op, oo = observed_errors(r)
            what = {"items": [(x[0],) + tuple(y.sub if hasattr(y, "sub") else y for y in x[1:]) for x in items], "cmd": [cmd] + args}
            if unsynced is not None and not any(k_ == "d" for pos_ in stripes for k_ in stripes[pos_]):
                unsynced = None
            nt.add(repr(what))
            # ---- expectations
            want_data = set(exp_data)
            want_par = set(exp_par)
            covering = cmdk != "scrub-bad"
            if cmdk == "check-a":
                want_par = set()
            if cmd == "scrub":
                if not covering:
                    want_data, want_par = set(), set()
                else:
                    if cmdk == "scrub-new":
                        # the plan covers only stripes never scrubbed (decoded just-synced flag)
                        cov = {pos for pos in stripes if pos < len(c.info) and c.info[pos] is not None and c.info[pos][3]}
                        want_data = {x for x in want_data if x[0] in cov}
                        want_par = {x for x in want_par if x[0] in cov}
                        stripes = {pos: ks for pos, ks in stripes.items() if pos in cov}
                    # parity is reported only for stripes without data errors
                    want_par = {(pos, lv) for (pos, lv) in want_par if "d" not in stripes.get(pos, [])}
            if cmd == "check" and cmdk == "check":
                # beyond the redundancy of a stripe the parity report is not required
                over = {pos for pos, ks in stripes.items() if len(ks) > a.nlev}
                want_par_required = {(pos, lv) for (pos, lv) in want_par if pos not in over}
                par_ok = want_par_required <= op and op <= want_par
            else:
                par_ok = op == want_par
            label = "%s %s after %s" % (cmd, " ".join(args), evidence.jsonable(what["items"]))
            if od != want_data:
                miss = want_data - od
                extra = od - want_data
                if miss:
                    V("data-corruption-not-located:" + cmdk, "%s: missing error tags %s (got %s)" % (label, evidence.jsonable(sorted(miss)[:3]), evidence.jsonable(sorted(od)[:3])), what)
                else:
                    V("spurious-data-error:" + cmdk, "%s: unexpected error tags %s" % (label, evidence.jsonable(sorted(extra)[:3])), what)
            elif not par_ok:
                if want_par - op:
                    V("parity-corruption-not-located:" + cmdk, "%s: missing parity_error %s (got %s)" % (label, evidence.jsonable(sorted(want_par - op)[:3]), evidence.jsonable(sorted(op)[:3])), what)
                else:
                    V("spurious-parity-error:" + cmdk, "%s: unexpected parity_error %s" % (label, evidence.jsonable(sorted(op - want_par)[:3])), what)
            elif oo:
                V("unexpected-error-kind:" + cmdk, "%s: %s" % (label, evidence.jsonable(oo[:3])), what)
            else:
                should_fail = bool(want_data or want_par)
                if should_fail and r.rc == 0:
                    V("exit-status-ok-despite-errors:" + cmdk, "%s: rc=0" % label, what)
                elif not should_fail and r.rc != 0:
                    V("exit-status-fails-without-error:" + cmdk, "%s: rc=%s err=%s" % (label, r.rc, r.err[-200:].decode("latin-1")), what)
            if cmd == "scrub":
                bad, nbad, dec = bad_marks(a, variant)
                want_bad = set(stripes) if covering else set()  # stripes holds the silently damaged ones only
                if bad != want_bad or dec != want_bad or nbad != len(want_bad):
                    V("scrub-bad-marks-wrong:" + cmdk, "%s: status bad=%s has_bad=%s decoded=%s expected=%s" %
                      (label, sorted(bad), nbad, sorted(dec), sorted(want_bad)), what)
                res["counters"]["scrub_runs"] = res["counters"].get("scrub_runs", 0) + 1
                # ---- what scrub wrote into the array state must not confuse later commands: with the state left by the
                # scrub (bad marks), the data errors located by check -a are still exactly the damaged blocks, and once the
                # damage is gone scrub -p bad finds nothing and clears the marks
                if covering and unsynced is None and cmdk in ("scrub-full", "scrub-100") and not _unmatched(res) and rng.random() < 0.6:
                    r2 = a.cmd("check", "-a", variant=variant)
                    od2, _op2, oo2 = observed_errors(r2)
                    if od2 != exp_data:
                        V("after-scrub:data-errors-located-differently:check-a", "%s, then check -a: missing %s unexpected %s" %
                          (label, evidence.jsonable(sorted(exp_data - od2)[:3]), evidence.jsonable(sorted(od2 - exp_data)[:3])), what)
                    undo.restore()
                    r3 = a.cmd("scrub", "-p", "bad", variant=variant)
                    od3, op3, oo3 = observed_errors(r3)
                    bad3, nbad3, dec3 = bad_marks(a, variant)
                    if od3 or op3 or oo3 or r3.rc != 0:
                        V("after-scrub:errors-on-undamaged-array:scrub-bad", "%s, damage undone, then scrub -p bad: rc=%s data %s parity %s" %
                          (label, r3.rc, evidence.jsonable(sorted(od3)[:3]), evidence.jsonable(sorted(op3)[:3])), what)
                    elif bad3 or dec3 or nbad3:
                        V("after-scrub:bad-marks-not-cleared", "%s, damage undone, then scrub -p bad: still bad %s" % (label, sorted(bad3 | dec3)), what)
                    res["counters"]["scrub_followups"] = res["counters"].get("scrub_followups", 0) + 1
                restore_content()
            res["counters"]["detections_checked"] = res["counters"].get("detections_checked", 0) + len(want_data) + len(want_par)
            undo.restore()
            if _unmatched(res) >= 3:
                break
        res["nontrivial"] = len(nt) > 0
        res["counters"]["nontrivial_plans"] = len(nt)
        res["key"] = "%s|%s|%d" % (sorted(cfg.items()), hist, len(plans))
        res["sample"] = {"cfg": cfg, "plans": len(plans), "example": evidence.jsonable(plans[0][1]) if plans else None,
                         "first_target": evidence.jsonable([(x[0],) + tuple(y.sub if hasattr(y, "sub") else y for y in x[1:]) for x in plans[0][0]]) if plans else None}
        return res
    finally:
        a.cleanup()


def main(tier, seed, replay, jobs, scale):
    run = evidence.Run("C04", tier, seed, "exploration", RULE)
    if replay:
        import json
        cases = [tuple(json.load(open(replay))["replay"]["case"])]
    else:
        n = int((40 if tier == "quick" else 600) * scale)
        cases = [(seed, i, tier) for i in range(n)]
    par.absorb(run, par.run_cases(run_case, cases, jobs))
    # distinct non-trivial is counted per plan, not per array
    np_ = run.counters.get("nontrivial_plans", 0)
    for i in range(np_):
        run.nontrivial.add("plan-%d" % i)
    run.evaluations = max(run.evaluations, run.counters.get("plans", 0))
    run.assumptions += ["a corruption colliding under a truncated hash (checked with the frozen reference hash) is not a miss",
                        "in full check the per-level parity report is required only when the stripe's damage is within N",
                        "scrub reports parity only for stripes without data errors (as coded and documented)"]
    return run.finish(min_eval=max(1, len(cases) // 2), min_nontrivial=min(50, 5 * len(cases)))
