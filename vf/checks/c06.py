"""C06 Stripes recorded as synced always have valid parity (checked after every command)."""
import os
import random

from .. import arr as A
from .. import content as cnt
from .. import evidence, par, parity, scen, shimlog

RULE = ("random histories (file-system operations interleaved with sync full/-S -B partial/-F/-R/-h/-N/forced autosave/"
        "kill-after-sync, scrub plans, fix full/parity-only/filtered/-e/-m after random damage, rehash+partial scrub, touch, "
        "check) over random configurations (1..6 parity + z, 1..6 disks, block 1/2/4 KiB, hash 16/8/4/2, 1..4 content copies, "
        "1..4 splits, io-cache 1/3/128); after EVERY command each content copy is decoded by the independent parser, the map "
        "invariants are checked and the parity oracle (GF product over the version store) is compared with the parity files "
        "for every stripe whose allocated blocks are all BLK; the ordering 'every written parity file is fsynced before a content save' is "
        "counted on sync event logs as an observation only (no verdict: a process kill cannot lose page-cache data). Scripted motifs (20 % of the steps start one) walk REP/CHG/DELETED corner states and run fix -e/-b on a bad-marked stripe one of whose files was rewritten by the user. A case = one history; non-trivial when at least one "
        "synced stripe with data was compared; distinct by (configuration, command sequence).")

SYNC_VARIANTS = [
    [], [], [], ["-F"], ["-R"], ["-h"], ["-N"], ["PARTIAL"], ["AUTOSAVE"], ["--test-kill-after-sync"],
    ["-E"], ["-Z", "-E"],
]


def oracle(a, fs, probs, stats, where, levels=None, tolerate=None):
    """C06 oracle on the current on-disk state. Appends (key, desc) to probs."""
    cps = a.cpaths()
    datas = []
    for p in cps:
        try:
            datas.append(open(p, "rb").read())
        except FileNotFoundError:
            datas.append(None)
    present = [d for d in datas if d is not None]
    if not present:
        return {}
    c = None
    for d in present:
        try:
            c = cnt.decode(d)
            break
        except cnt.DecodeError as ex:
            probs.append(("content-undecodable", "%s: content copy does not decode: %s" % (where, ex)))
            return {}
    for pr in cnt.check_map_invariants(c):
        probs.append(("map-invariant:" + pr.split(" ")[0], "%s: %s" % (where, pr)))
    # round trip of tool-produced files (self-check of the codec; a failure is a harness problem)
    if cnt.encode(c) != present[0]:
        stats["codec_roundtrip_mismatch"] = stats.get("codec_roundtrip_mismatch", 0) + 1
    pp, st = parity.check_parity(a, fs, c, levels=levels)
    for k, v in st.items():
        stats[k] = stats.get(k, 0) + v
    bad = {(p["pos"], p["level"]): p["why"] for p in pp}
    if tolerate is not None:
        new = {k: v for k, v in bad.items() if k not in tolerate}
        for (pos, lev), why in sorted(new.items())[:5]:
            probs.append(("fix-breaks-parity", "%s: stripe %d level %d was valid before the command: %s" % (where, pos, lev, why)))
    else:
        for (pos, lev), why in sorted(bad.items())[:5]:
            probs.append(("parity-mismatch", "%s: stripe %d level %d: %s" % (where, pos, lev, why)))
    return bad


def spec_parity_fsync(evs):
    """Ordering spec on a sync event log. Returns (violations, observations)."""
    viol = []
    obs = dict(content_saves=0, parity_writes=0, parity_fsyncs=0, trailing_unsynced_writes=0)
    written = {}   # path -> seq of first write since last save
    synced = {}    # path -> True when an fsync came after a write
    trailing = {}
    for e in evs:
        if e.kind != "E":
            continue
        if e.cls == "parity" and e.op == "write" and e.ret > 0:
            obs["parity_writes"] += 1
            written.setdefault(e.path, e.seq)
            trailing[e.path] = trailing.get(e.path, 0) + 1
        elif e.cls == "parity" and e.op == "fsync" and e.ret == 0:
            obs["parity_fsyncs"] += 1
            if e.path in written:
                synced[e.path] = True
            trailing[e.path] = 0
        elif e.cls == "content" and e.op == "open" and e.path.endswith(b".tmp") and (e.flags & shimlog.O_CREAT) and e.ret >= 0:
            # a content save starts; count once per save (first copy)
            if not e.path.endswith(b"c0.content.tmp"):
                continue
            obs["content_saves"] += 1
            for p in written:
                if not synced.get(p):
                    viol.append("parity file %r written but not fsynced before content save at event %d" % (os.path.basename(p), e.seq))
            obs["trailing_unsynced_writes"] += sum(trailing.values())
            written.clear()
            synced.clear()
    return viol, obs


def make_motif(a, fs, rng):
    """Scripted step sequences that walk the block state machine along paths random histories rarely take:
    a shortcut/partial state is saved (REP, CHG with a past hash, DELETED), then the same data comes back."""
    files = [(d, s) for (d, s) in fs.files() if len(fs.entries[d][s][1]) > 0 and not fs.links_of(d, s)]
    if not files:
        return []
    d, s = rng.choice(files)
    data = fs.entries[d][s][1]
    steps = []
    first = rng.choice(["copy-same-name", "replace-same-size", "delete", "delete", "move-disk", "empty-disk", "silent+delete", "bad-stripe+user-change"])
    if first == "bad-stripe+user-change":
        # a stripe is marked bad by scrub (the cause is gone again afterwards), the user goes on working on a file that has a
        # block in it, then fix -e / -b runs: it must not write the changed file, and whatever it does to the parity of the
        # stripe must still be the parity of the SYNCED contents (the stripe is still recorded as synced)
        hold = {}

        def h1():
            from .. import dmg
            c_ = a.load_content()
            n2i = {nm.encode(): i for i, nm in enumerate(a.disk_names)}
            cands = [(pos, [e for e in ents if e[1] == "file" and e[4] == cnt.BLK]) for pos, ents in c_.stripe_map().items()]
            cands = [(pos, fe) for pos, fe in cands if fe and all(e[1] != "file" or e[4] == cnt.BLK for e in c_.stripe_map()[pos])]
            if not cands:
                raise KeyError("no synced stripe")
            pos, fe = rng.choice(cands)
            e1 = rng.choice(fe)
            e2 = rng.choice(fe)
            d1_, d2_ = n2i[c_.disk_name(e1[0])], n2i[c_.disk_name(e2[0])]
            if e2[2].sub not in fs.entries[d2_] or fs.entries[d2_][e2[2].sub][0] != "file":
                raise KeyError("model does not know the file")
            p1 = fs.path(d1_, e1[2].sub)
            st_ = os.lstat(p1)
            with open(p1, "rb") as fh:
                orig = fh.read()
            if dmg.damage_file_block(a, c_, e1[2], e1[3], rng, rng.choice(["bit", "byte", "block"])) != "ok":
                raise KeyError("block not damaged")
            hold["heal"] = (p1, orig, st_.st_atime_ns, st_.st_mtime_ns)
            hold["user"] = (d2_, e2[2].sub, e2[3])

        def h2():
            p1, orig, at_, mt_ = hold["heal"]
            with open(p1, "r+b") as fh:
                fh.write(orig)
            os.utime(p1, ns=(at_, mt_))
            d2_, sub2, bi = hold["user"]
            old = fs.entries[d2_][sub2][1]
            lo = bi * a.bs
            hi = min(len(old), lo + a.bs)
            cut = rng.randint(lo, max(lo, hi - 1))
            new = old[:cut] + A.gen_bytes(rng, rng.randint(1, max(1, hi - cut)), "rand")
            new = new + old[len(new):]
            if rng.random() < 0.5:
                new += A.gen_bytes(rng, rng.randint(1, 2 * a.bs), "rand")
            if new == old:
                new = old + b"x"
            fs.write(d2_, sub2, new, keep_inode=True)
        steps.append(("cmd", "sync", ["-E", "-Z"]))
        steps.append(("fs", h1, "silent corruption of one synced block"))
        steps.append(("cmd", "scrub", ["-p", "full"]))
        steps.append(("fs", h2, "corruption undone (the stripe stays marked bad); the user rewrites a block of a file of that stripe in place"))
        steps.append(("cmd", "fix", [rng.choice(["-e", "-e", "-b"])]))
        return steps
    if first == "silent+delete":
        # one sync has to deal at once with a silently corrupted synced block and a pending deletion on another disk of the
        # same stripe (with enough parity it repairs the block on the fly and must still produce the parity of what remains)
        if len(a.disks) < 2:
            return []
        hold = {}

        def g2():
            from .. import dmg
            c_ = a.load_content()
            n2i = {nm.encode(): i for i, nm in enumerate(a.disk_names)}
            cands = []
            for pos, ents in c_.stripe_map().items():
                fe = [e for e in ents if e[1] == "file" and e[4] == cnt.BLK]
                if len({e[0] for e in fe}) >= 2:
                    cands.append(fe)
            rng.shuffle(cands)
            for fe in cands[:rng.randint(1, 3)]:
                e1, e2 = rng.sample(fe, 2)
                if e1[0] == e2[0]:
                    continue
                d1_, d2_ = n2i[c_.disk_name(e1[0])], n2i[c_.disk_name(e2[0])]
                f1, f2 = e1[2], e2[2]
                if f2.sub not in fs.entries[d2_] or fs.entries[d2_][f2.sub][0] != "file" or fs.links_of(d2_, f2.sub):
                    continue
                p1 = fs.path(d1_, f1.sub)
                try:
                    st_ = os.lstat(p1)
                    with open(p1, "rb") as fh:
                        orig = fh.read()
                except OSError:
                    continue
                if dmg.damage_file_block(a, c_, f1, e1[3], rng, "byte") == "ok":
                    hold.setdefault("heal", []).append((p1, orig, st_.st_atime_ns, st_.st_mtime_ns))
                    fs.remove(d2_, f2.sub)

        def g3():
            for (p1, orig, at_, mt_) in reversed(hold.get("heal", [])):
                try:
                    with open(p1, "wb") as fh:
                        fh.write(orig)
                    os.utime(p1, ns=(at_, mt_))
                except OSError:
                    pass
        steps.append(("cmd", "sync", ["-E", "-Z"]))
        steps.append(("fs", g2, "silent corruption of a synced block + deletion of a file of another disk in the same stripe"))
        steps.append(("cmd", "sync", ["-E", "-Z"]))
        steps.append(("fs", g3, "harness damage undone"))
        return steps
    if first == "empty-disk":
        # a whole disk loses everything while its deletions are still pending across a partial / killed sync; half of the
        # time the disk held one big file reaching further into the parity than every other disk
        if len(a.disks) < 2:
            return []
        blocks_on = lambda x: sum((len(fs.entries[x][s_][1]) + a.bs - 1) // a.bs for (_d, s_) in fs.files(x))
        if rng.random() < 0.5:
            dd = rng.choice(a.disks)
            def g1():
                fs.clear_disk(dd)
                nb = max(blocks_on(x) for x in a.disks if x != dd) + rng.randint(-1, 4)
                fs.write(dd, b"single-big-file", A.gen_bytes(rng, max(1, nb) * a.bs - rng.choice([0, 1, 17]), "rand"))
            steps.append(("fs", g1, "disk %s now holds one big file" % a.disk_names[dd]))
        else:
            dd = max(a.disks, key=blocks_on)
        steps.append(("cmd", "sync", ["-E", "-Z"]))
        steps.append(("fs", lambda: fs.clear_disk(dd), "empty disk %s" % a.disk_names[dd]))
        steps.append(("cmd", "sync", ["-E", "-Z"] + rng.choice([["-B", str(rng.randint(1, 3))], ["-S", str(rng.randint(0, 2)), "-B", str(rng.randint(1, 3))],
                                                                    ["--test-kill-after-sync"], ["--test-force-autosave-at", "1", "-B", "2"]])))
        if rng.random() < 0.5:
            steps.append(("cmd", "check", []))
        steps.append(("cmd", "sync", ["-E", "-Z"]))
        return steps
    tgt = (d, s)
    if first == "copy-same-name" and len(a.disks) > 1:
        d2 = rng.choice([x for x in a.disks if x != d])
        if not scen._clear_path(fs, d2, s):
            return []
        steps.append(("fs", lambda: fs.copy(d, s, d2, s), "copy %r to %s" % (s, a.disk_names[d2])))
        tgt = (d2, s)
    elif first == "replace-same-size":
        def f1():
            fs.remove(d, s)
            fs.write(d, s, A.gen_bytes(rng, len(data), "rand"))
        steps.append(("fs", f1, "replace %r by same-size data" % s))
    elif first == "delete":
        steps.append(("fs", lambda: fs.remove(d, s), "delete %r" % s))
    elif first == "move-disk" and len(a.disks) > 1:
        d2 = rng.choice([x for x in a.disks if x != d])
        if not scen._clear_path(fs, d2, s):
            return []
        steps.append(("fs", lambda: fs.rename(d, s, d2, s), "move %r to %s" % (s, a.disk_names[d2])))
        tgt = (d2, s)
    else:
        return []
    sv = rng.choice([["-S", str(rng.randint(0, 3)), "-B", str(rng.randint(1, 4))], ["--test-kill-after-sync"], ["--test-kill-after-sync"],
                     ["-h", "-S", str(rng.randint(0, 3)), "-B", str(rng.randint(1, 4))], ["-S", "0", "-B", "1"]])
    if first == "delete" and rng.random() < 0.5:
        # the deletion reaches the parity but not the saved state (killed after the parity update) ...
        sv = ["--test-kill-after-sync"]
    steps.append(("cmd", "sync", ["-E", "-Z"] + sv))
    second = rng.choice(["touch", "same-data-rewrite", "recreate-same-data", "recreate-same-data", "recreate-other-name", "none"])
    if first == "delete" and sv == ["--test-kill-after-sync"] and rng.random() < 0.7:
        # ... and the same bytes come back at the freed positions
        second = "recreate-same-data"
    td, ts = tgt
    if second == "touch":
        steps.append(("fs", lambda: fs.set_mtime(td, ts) if ts in fs.entries[td] else None, "touch %r" % ts))
    elif second == "same-data-rewrite":
        def f2():
            if ts in fs.entries[td] and fs.entries[td][ts][0] == "file":
                fs.write(td, ts, fs.entries[td][ts][1], keep_inode=rng.random() < 0.5)
        steps.append(("fs", f2, "rewrite %r with the same data" % ts))
    elif second == "recreate-same-data":
        def f3():
            if ts in fs.entries[td]:
                fs.remove(td, ts)
            if scen._clear_path(fs, td, ts):
                fs.write(td, ts, data)
        steps.append(("fs", f3, "recreate %r with the old data" % ts))
    elif second == "recreate-other-name":
        def f4():
            nm = b"back-" + ts.split(b"/")[-1]
            if scen._clear_path(fs, td, nm):
                if first in ("delete",) or ts not in fs.entries[td]:
                    fs.write(td, nm, data)
        steps.append(("fs", f4, "old data of %r comes back under another name" % ts))
    if rng.random() < 0.5:
        steps.append(("cmd", "sync", ["-E", "-Z"] + rng.choice([[], ["-S", "0", "-B", "2"], ["-h"]])))
    steps.append(("cmd", "sync", ["-E", "-Z"]))
    return steps


def run_history(case):
    seed, idx, nsteps, tier = case
    rng = random.Random("c06-%d-%d" % (seed, idx))
    cfg = scen.gen_config(rng)
    a, fs = scen.make(rng, cfg, "c06")
    res = dict(key=None, violations=[], counters={}, nontrivial=False)
    stats = {}
    hist = []
    variant = "asan" if idx % 4 == 3 else "plain"
    iocache = rng.choice([None, None, 1, 3, 128])
    try:
        A.populate(fs, rng, nfiles=rng.randint(4, 18), hostile=0.1)
        pending = []   # scripted steps of a motif: ("fs", callable) or ("cmd", name, args)
        step = -1
        nsteps_left = nsteps
        while nsteps_left > 0 or pending:
            step += 1
            nsteps_left -= 1
            probs = []
            k = rng.random()
            if not pending and rng.random() < 0.2:
                pending = make_motif(a, fs, rng)
                res["counters"]["motifs"] = res["counters"].get("motifs", 0) + (1 if pending else 0)
            scripted = pending.pop(0) if pending else None
            if scripted is not None and scripted[0] == "fs":
                try:
                    scripted[1]()
                    hist.append(("motif-fs", scripted[2]))
                except (OSError, KeyError):
                    pending = []
                continue
            if scripted is None and k < 0.33:
                ops = scen.mutate(fs, rng, rng.randint(1, 5), hostile=0.1)
                hist.append(("fs", len(ops)))
                continue
            if scripted is None and k < 0.35:
                # position holes: empty a disk, sync, drop it from the configuration; or add a new disk
                if len(a.disks) >= 2 and rng.random() < 0.6:
                    d = rng.choice(a.disks)
                    if any(cp.startswith(a.ddir(d) + "/") for cp in a.cpaths()):
                        continue
                    fs.clear_disk(d)
                    r = a.cmd("sync", "-E", variant=variant)
                    hist.append(("empty-disk+sync -E", d, r.rc))
                    if r.rc != 0:
                        break
                    a.drop_disk(d)
                    r = a.cmd("status", variant=variant)
                    hist.append(("drop-disk+status", d, r.rc))
                    res["counters"]["disks_dropped"] = res["counters"].get("disks_dropped", 0) + 1
                    if r.rc != 0:
                        res["inconclusive"] = "status refused after dropping an emptied disk: %s" % r.err[-300:]
                        break
                else:
                    d = a.add_disk()
                    fs.entries[d] = {}
                    A.populate(fs, rng, nfiles=rng.randint(1, 6), hostile=0.1, disks=[d], links=False, dirs=False)
                    hist.append(("add-disk", d))
                    res["counters"]["disks_added"] = res["counters"].get("disks_added", 0) + 1
                continue
            args = []
            if iocache:
                args += ["--test-io-cache", str(iocache)]
            shim = None
            damaged_before = None
            if scripted is not None:
                cmd = scripted[1]
                args += list(scripted[2])
                shim = {} if cmd == "sync" else None
            elif k < 0.70:
                cmd = "sync"
                v = list(rng.choice(SYNC_VARIANTS))
                if v == ["PARTIAL"]:
                    v = ["-S", str(rng.randint(0, 6)), "-B", str(rng.randint(1, 8))]
                elif v == ["AUTOSAVE"]:
                    v = ["--test-force-autosave-at", str(rng.randint(1, 8))]
                args += v
                shim = {}
            elif k < 0.78:
                cmd = "scrub"
                args += ["-p", rng.choice(["full", "new", "bad", "30", "100"])]
                if rng.random() < 0.5:
                    args += ["-o", "0"]
            elif k < 0.90:
                # damage then fix
                state = fs.clone_entries()
                how = rng.choice(["none", "delete", "flip", "truncate", "parity", "wipe"])
                if how == "parity":
                    pps = a.all_parity_paths()
                    scen.damage_parity_file(rng.choice(pps), rng, rng.choice(["delete", "zero", "truncate", "flips"]))
                elif how != "none":
                    scen.damage_data_disk(a, fs, rng, rng.choice(a.disks), how, state)
                cmd = "fix"
                args += rng.choice([[], [], ["-e"], ["-m"], ["-d", "parity"], ["-d", a.disk_names[rng.choice(a.disks)]],
                                    ["-f", "*a*"]])
                hist.append(("damage", how))
                # what the damage itself broke is not the tool's doing: fix must only not break more
                damaged_before = oracle(a, fs, [], {}, "after damage")
            elif k < 0.94:
                cmd = "rehash"
                args += [rng.choice(["--test-force-spooky2", "--test-force-murmur3"])]
            elif k < 0.97:
                cmd = "touch"
            else:
                cmd = rng.choice(["check", "status", "diff"])
            if cmd == "scrub" and rng.random() < 0.3:
                args += ["--test-force-scrub-even"]
            r = a.cmd(cmd, *args, variant=variant, shim=shim)
            hist.append((cmd, args, r.rc))
            if cmd == "touch":
                fs.adopt_touch()
            res["counters"]["commands"] = res["counters"].get("commands", 0) + 1
            res["counters"]["cmd_" + cmd] = res["counters"].get("cmd_" + cmd, 0) + 1
            where = "after step %d %s %s rc=%s" % (step, cmd, " ".join(args), r.rc)
            if r.timeout:
                res["inconclusive"] = "timeout in " + where
                break
            for s in r.san:
                res["violations"].append(("sanitizer:" + A.san_key(s), "%s\n%s" % (where, s[:3000])))
            if cmd == "fix":
                # fix restored files on disk: the model still describes what should be there; nothing to do.
                pass
            oracle(a, fs, probs, stats, where, tolerate=damaged_before if cmd == "fix" else None)
            if shim is not None and r.events:
                sv, obs = spec_parity_fsync(shimlog.parse(r.events))
                for k2, v2 in obs.items():
                    res["counters"][k2] = res["counters"].get(k2, 0) + v2
                # observation only: the properties do not state durability ordering (see DESIGN.md section 6)
                res["counters"]["obs_saves_with_unsynced_parity"] = res["counters"].get("obs_saves_with_unsynced_parity", 0) + len(sv)
            for key, desc in probs:
                res["violations"].append((key, desc, {"case": list(case), "cfg": cfg, "history": hist[-12:]}))
            if probs:
                break
            # after a fix following damage, bring the tree back to the model so later steps stay meaningful
            if cmd == "fix":
                _resync_model(a, fs)
                rh = a.cmd("sync", "-F", variant=variant)
                hist.append(("heal:sync -F", rh.rc))
                if rh.rc != 0:
                    break
                hp = []
                oracle(a, fs, hp, stats, "after healing sync -F (rc 0) following %s" % where)
                for key, desc in hp:
                    res["violations"].append((key, desc, {"case": list(case), "cfg": cfg, "history": hist[-12:]}))
                if hp:
                    break
    finally:
        a.cleanup()
    res["counters"].update({"stripes_compared": stats.get("stripes", 0), "blocks_compared": stats.get("blocks", 0),
                            "stripes_unsynced_skipped": stats.get("stripes_unsynced", 0),
                            "stripes_unknown_version": stats.get("skipped_unknown", 0),
                            "codec_roundtrip_mismatch": stats.get("codec_roundtrip_mismatch", 0)})
    res["nontrivial"] = stats.get("blocks", 0) > 0
    res["key"] = "cfg=%s|%s" % (sorted(cfg.items()), [h[0] if h[0] != "fs" else "fs" for h in hist])
    res["sample"] = {"cfg": cfg, "history": [list(h) for h in hist[:14]]}
    return res


def _resync_model(a, fs):
    """Rewrite on disk every model entry that differs (damage that fix did not undo),
    through the model so the version store stays the truth."""
    for d in a.disks:
        for s, e in list(fs.entries[d].items()):
            p = fs.path(d, s)
            try:
                if e[0] == "file":
                    ok = False
                    try:
                        st = os.lstat(p)
                        if st.st_size == len(e[1]) and st.st_mtime_ns == e[2]:
                            with open(p, "rb") as f:
                                ok = f.read() == e[1]
                    except OSError:
                        pass
                    if not ok:
                        links = [(s2, e2) for s2, e2 in fs.entries[d].items() if e2[0] == "hardlink" and e2[1] == s]
                        for s2, _ in links:
                            try:
                                os.unlink(fs.path(d, s2))
                            except OSError:
                                pass
                        if os.path.lexists(p):
                            if os.path.isdir(p) and not os.path.islink(p):
                                import shutil
                                shutil.rmtree(p)
                            else:
                                os.unlink(p)
                        os.makedirs(os.path.dirname(p), exist_ok=True)
                        with open(p, "wb") as f:
                            f.write(e[1])
                        os.utime(p, ns=(e[2], e[2]))
                        for s2, _ in links:
                            os.link(p, fs.path(d, s2))
                elif e[0] == "symlink":
                    if not os.path.islink(p) or os.readlink(p) != e[1]:
                        if os.path.lexists(p):
                            os.unlink(p)
                        os.makedirs(os.path.dirname(p), exist_ok=True)
                        os.symlink(e[1], p)
                elif e[0] == "hardlink":
                    if not os.path.lexists(p):
                        os.makedirs(os.path.dirname(p), exist_ok=True)
                        os.link(fs.path(d, e[1]), p)
                elif e[0] == "dir":
                    os.makedirs(p, exist_ok=True)
            except OSError:
                pass
        # remove what the model does not have (files restored by fix, *.unrecoverable leftovers)
        own = scen.content_copy_subs(a)[d]
        base = os.fsencode(a.ddir(d))
        for root, dirs, files in os.walk(base, topdown=False):
            for f in files:
                p = os.path.join(root, f)
                rel = p[len(base):].lstrip(b"/")
                if rel in fs.entries[d] or rel in own:
                    continue
                try:
                    os.unlink(p)
                except OSError:
                    pass
            for dn in dirs:
                p = os.path.join(root, dn)
                rel = p[len(base):].lstrip(b"/")
                if rel in fs.entries[d]:
                    continue
                try:
                    if os.path.islink(p):
                        os.unlink(p)
                    elif not os.listdir(p):
                        os.rmdir(p)
                except OSError:
                    pass


def main(tier, seed, replay, jobs, scale):
    run = evidence.Run("C06", tier, seed, "exploration", RULE)
    if replay:
        import json
        rp = json.load(open(replay))
        cases = [tuple(rp["replay"]["case"])]
    else:
        n = int((600 if tier == "quick" else 15000) * scale)
        steps = 16 if tier == "quick" else 28
        cases = [(seed, i, steps, tier) for i in range(n)]
    par.absorb(run, par.run_cases(run_history, cases, jobs))
    run.assumptions += ["a process kill does not lose page-cache data; missing fsyncs are only visible to the ordering spec",
                        "synced contents are taken from the harness's version store, never from the disks"]
    if run.counters.get("blocks_compared", 0) == 0:
        run.inconc("no synced block was compared")
    if run.counters.get("codec_roundtrip_mismatch", 0):
        run.inconc("content codec round trip mismatch (harness self-check)")
    return run.finish(min_eval=max(1, len(cases) // 2), min_nontrivial=min(10, len(cases)))
