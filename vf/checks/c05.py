"""C05 Fix never silently leaves or produces wrong data."""
import os
import random
import shutil

from .. import arr as A
from .. import content as cnt
from .. import dmg, evidence, par, refhash, scen
from ..content import BLK, CHG, REP
from .c01 import build_synced_array

RULE = ("histories of syncs (complete; -S/-B partial; killed after the parity update; with stripes skipped because a --test-run "
        "command rewrites, removes or makes unreadable a file of the stripe between scan and sync; with copy-detected files) followed "
        "by detectable damage only (missing or short files, flips in blocks that have a recorded hash with size and stamp kept, lost or "
        "stale parity) on 0..nd+np devices, then fix with no filter and with -f/-d/-m/-e combinations; plus silent damage + scrub (stripes marked bad) + user changes (append, rewrite, shrink, touch) of stripe mates and of the damaged files, then fix -e / -b: files changed after the sync and files without a bad block keep bytes, size and time-stamp. Oracle (version store = every "
        "version the harness ever wrote, keyed by disk/path/size/mtime; content decoded before fix): afterwards every recorded file "
        "either holds exactly the bytes of the recorded version or is reported unrecoverable (status:unrecoverable + .unrecoverable "
        "rename + failing exit status); no file is tagged status:recovered with other bytes; files outside the selection or unknown to "
        "the content file are never written. A violation is keyed by a diagnosis of the witness block (state, recorded hash vs "
        "reference hash of new / old occupant bytes). A quarter of the fix runs get an import directory (-i / --test-import-content) with every version the harness ever wrote. distinct = (history, damage, filters).")


def _unmatched(res):
    from .. import findings
    return len([v for v in res["violations"] if findings.match("C05", v[0]) is None])


def shell_quote(b):
    return "'" + b.decode("latin-1").replace("'", "'\\''") + "'"


def diagnose(a, fs, c, f, got, want, inputs_damaged):
    """Mechanism key for a wrong-but-unreported file from the recorded block map."""
    bs = c.blocksize
    name2idx = {n.encode(): i for i, n in enumerate(a.disk_names)}
    d = name2idx[c.disk_name(f.disk)]
    reasons = set()
    for i, (pos, st, h) in enumerate(f.blocks):
        g = got[i * bs:(i + 1) * bs]
        w = want[i * bs:(i + 1) * bs]
        if g == w:
            continue
        if st == BLK:
            reasons.add("synced-block-wrong")
            continue
        # CHG / REP block: what does the recorded (past) hash describe?
        hn = refhash.digest(c.hash, c.hashseed, w, c.hashsize)
        if h == hn:
            if inputs_damaged and refhash.digest(c.hash, c.hashseed, g, c.hashsize) != h:
                # the past hash happens to describe the new bytes too (same data re-added at the position), but what fix wrote is
                # neither: rebuilt from inputs the harness damaged and accepted because it does not hash to the past hash
                reasons.add("%s-block-rebuilt-from-damaged-parity-accepted-because-hash-differs-from-past" % st)
            else:
                reasons.add("%s-block-records-hash-of-new-data-but-got-other-bytes" % st)
            continue
        # search the version store for the old occupant: any block of any version ever written on this disk
        occ = None
        for (dd, sub2, size2, _sec, _ns), data2 in fs.store.items():
            if dd != d:
                continue
            for bi in range((len(data2) + bs - 1) // bs):
                blk = data2[bi * bs:(bi + 1) * bs]
                if refhash.digest(c.hash, c.hashseed, blk, c.hashsize) == h:
                    occ = blk
                    break
            if occ is not None:
                break
        hg = refhash.digest(c.hash, c.hashseed, g, c.hashsize)
        if st == CHG and h == b"\xff" * len(h) and g.strip(b"\x00") == b"" and w.strip(b"\x00") != b"":
            # ZERO past hash = "the position was empty before" and zeros is what fix wrote: the OLD state of the position was
            # written under the new file's name and reported as recovered (the heuristics accept a rebuilt block only when it
            # is NOT what the past hash describes - this is the opposite)
            reasons.add("chg-block-zero-past-hash-and-zeros-written-as-recovered")
        elif st == CHG and h == b"\xff" * len(h) and g != w and g.strip(b"\x00") != b"" and not inputs_damaged:
            # ZERO past hash = "the position was empty before": the rebuilt bytes are whatever parity the unused
            # stripe still held (parity of freed stripes is never cleared), accepted because they are not zero
            reasons.add("chg-block-zero-past-hash-rebuilt-from-stale-parity-of-previously-unused-stripe")
        elif occ is not None and len(occ) != len(w):
            reasons.add("%s-block-past-hash-of-old-occupant-with-different-block-length" % st)
        elif hg != h and g != w and inputs_damaged:
            # neither the old nor the new data: rebuilt from damaged parity (or damaged blocks of other disks), and
            # accepted only because it does not hash to the recorded past hash (no hash of the new data to validate it)
            reasons.add("%s-block-rebuilt-from-damaged-parity-accepted-because-hash-differs-from-past" % st)
        elif hg != h and g != w:
            reasons.add("%s-block-wrong-bytes-accepted-although-parity-and-other-disks-are-intact" % st)
        else:
            reasons.add("%s-block-unexplained" % st)
    return "+".join(sorted(reasons)) or "no-block-differs(size?)"


def run_case_e(case):
    """fix -e / -b on an array with stripes marked bad by scrub, where files sharing those stripes (and sometimes the damaged
    file itself) were changed by the user after the last sync: -e/-b select only the files with a bad block AND "apply the
    fixes only to files that are not modified from the latest sync" - everything else must keep exactly the bytes, size and
    time-stamp it had before the fix; the selected, still synced files get the recorded bytes back or are reported."""
    seed, idx, tier = case
    rng = random.Random("c05e-%d-%d" % (seed, idx))
    variant = "asan" if idx % 4 == 3 else "plain"
    res = dict(key=None, violations=[], counters={}, nontrivial=False)
    V = res["violations"]
    cfg = scen.gen_config(rng, max_nd=4, max_lev=2, force=dict(hashsize=16))
    a, fs, state0, hist, cfg = build_synced_array(rng, "c05e", cfg, variant, rounds=rng.randint(0, 1), want_migration=False)
    try:
        c = a.load_content()
        name2idx = {n.encode(): i for i, n in enumerate(a.disk_names)}
        sm = c.stripe_map()
        tg = [(f, bi) for f in c.files for bi, b in enumerate(f.blocks) if b[1] == BLK and not fs.links_of(name2idx[c.disk_name(f.disk)], f.sub)]
        if not tg:
            raise scen.CaseError("no synced block")
        hit = rng.sample(tg, min(len(tg), rng.randint(1, 3)))
        for (f, bi) in hit:
            dmg.damage_file_block(a, c, f, bi, rng, rng.choice(["bit", "block", "byte"]))
        rs = a.cmd("scrub", "-p", "full", variant=variant)
        hist.append(("scrub-full", rs.rc))
        c = a.load_content()
        bad = {pos for pos, v in enumerate(c.info) if v is not None and v[1]}
        if not bad:
            raise scen.CaseError("scrub marked nothing")
        # files with a block in a bad stripe
        inbad = {}
        for pos in bad:
            for e in sm.get(pos, []):
                if e[1] == "file":
                    inbad[(name2idx[c.disk_name(e[0])], e[2].sub)] = e[2]
        damaged = {(name2idx[c.disk_name(f.disk)], f.sub) for (f, _bi) in hit}
        # ---- the user goes on working: stripe mates (mostly) and files elsewhere are changed after the sync
        mates = [k for k in inbad if k not in damaged]
        pool_ = [k for k in mates for _ in range(3)] + [k for k in damaged] + \
                [(name2idx[c.disk_name(f.disk)], f.sub) for f in c.files if f.size > 0]
        pool_ = [k for k in pool_ if not fs.links_of(*k)]
        user = {}
        for k in rng.sample(pool_, min(len(pool_), rng.randint(1, 4))):
            if k in user:
                continue
            pth = fs.path(*k)
            try:
                st = os.lstat(pth)
            except OSError:
                continue
            how = rng.choice(["append", "append", "rewrite+append", "rewrite", "shrink", "touch"])
            mt = fs.clock.next()
            with open(pth, "r+b") as fh:
                if how in ("rewrite", "rewrite+append") and st.st_size:
                    fh.seek(rng.randrange(st.st_size))
                    fh.write(A.gen_bytes(rng, rng.randint(1, max(1, st.st_size // 2)), "rand"))
                if how in ("append", "rewrite+append"):
                    fh.seek(0, 2)
                    fh.write(A.gen_bytes(rng, rng.randint(1, 3 * a.bs), "rand"))
                if how == "shrink" and st.st_size:
                    fh.truncate(rng.randint(0, st.st_size - 1))
            os.utime(pth, ns=(mt, mt))
            user[k] = how
        if not user:
            raise scen.CaseError("nothing modified")
        fargs = [rng.choice(["-e", "-e", "-b"])]
        before = {d: A.snapshot(a.ddir(d)) for d in a.disks}
        rf = a.cmd("fix", *fargs, variant=variant)
        for s_ in rf.san:
            V.append(("sanitizer:" + A.san_key(s_), s_[:2000], {"case": list(case)}))
        if rf.timeout:
            res["inconclusive"] = "fix timeout"
            return res
        after = {d: A.snapshot(a.ddir(d)) for d in a.disks}
        rep = {"case": list(case), "cfg": cfg, "history": hist, "damaged": sorted((a.disk_names[d], s.decode("latin-1")) for d, s in damaged),
               "modified_after_sync": sorted((a.disk_names[d], s.decode("latin-1"), h) for (d, s), h in user.items()), "fix_args": fargs}
        label = "silent damage in %d blocks, scrub, user changes %s, fix %s rc=%s" % (len(hit), sorted(user.values()), fargs, rf.rc)
        res["counters"]["fix_e_runs"] = 1
        res["counters"]["fix_e_files_modified_after_sync"] = len(user)
        res["counters"]["fix_e_modified_files_in_bad_stripes"] = len([k for k in user if k in inbad])
        unrec = {(t[2], t[3]) for t in rf.tag("status") if len(t) >= 4 and t[1] == b"unrecoverable"}
        own = scen.content_copy_subs(a)
        nj = 0
        # other names (hard links) of the selected files change with them
        sel_ino = {(d_, before[d_][s_][3]) for (d_, s_) in inbad if s_ in before[d_] and before[d_][s_][0] == "file" and (d_, s_) not in user}
        for d in a.disks:
            for (pth, what, x, y) in A.snap_diff(before[d], after[d]):
                if pth in own[d]:
                    continue
                if (d, pth) not in user and any(z is not None and z[0] == "file" and (d, z[3]) in sel_ino for z in (x, y)):
                    continue
                if x is not None and y is not None and x[0] == "dir" and y[0] == "dir":
                    continue
                base = pth[:-len(b".unrecoverable")] if pth.endswith(b".unrecoverable") else pth
                if (d, base) in user:
                    V.append(("fix-%s-writes-file-modified-after-sync/%s" % (fargs[0], user[(d, base)]),
                              "%s: %s %r on %s (%s -> %s)" % (label, what, pth, a.disk_names[d], x[:3] if x else None, y[:3] if y else None), rep))
                elif (d, base) not in inbad:
                    V.append(("fix-%s-writes-file-without-bad-block" % fargs[0], "%s: %s %r on %s" % (label, what, pth, a.disk_names[d]), rep))
        # selected and still synced: recorded bytes or reported
        for k in damaged:
            if k in user:
                continue
            nj += 1
            d, sub = k
            f = inbad.get(k)
            if f is None:
                continue
            want = fs.lookup(d, sub, f.size, f.mtime_sec, f.mtime_nsec if f.mtime_nsec >= 0 else 0)
            if want is None:
                continue
            try:
                with open(fs.path(d, sub), "rb") as fh:
                    got = fh.read()
            except OSError:
                got = None
            if got is not None and got != want:
                if (a.disk_names[d].encode(), sub) in unrec and rf.rc != 0:
                    V.append(("unrecoverable-file-left-under-its-name", "%s: %r" % (label, sub), rep))
                elif before[d].get(sub) != after[d].get(sub) or (a.disk_names[d].encode(), sub) not in unrec:
                    # left damaged without any report, or rewritten wrongly
                    mates_changed = any(k2 in user for k2 in inbad if k2 != k)
                    # -b (not in the property's list of filters) visits only the bad blocks: a file with one repaired and one
                    # unrecoverable block never reaches its last block, so it is counted and fails the exit status but is
                    # not renamed - judged only for a silent outcome there
                    if rf.rc == 0 or (fargs[0] == "-e" and before[d].get(sub) != after[d].get(sub)):
                        V.append(("fix-%s-leaves-selected-file-wrong%s" % (fargs[0], "/stripe-mate-modified" if mates_changed else ""),
                                  "%s: %s:%r still differs from the recorded version, rc=%s, not reported unrecoverable" %
                                  (label, a.disk_names[d], sub, rf.rc), rep))
        if unrec and rf.rc == 0:
            V.append(("unrecoverable-reported-but-exit-ok", label, rep))
        res["counters"]["files_judged"] = nj + len(user)
        res["nontrivial"] = True
        res["key"] = "e|%s|%s|%s|%s" % (sorted((k, str(v)) for k, v in cfg.items()), len(hit), sorted(user.values()), fargs)
        res["sample"] = {"cfg": cfg, "scenario": "fix -e/-b after user changes", "user": sorted(user.values()), "fix": fargs}
        return res
    finally:
        a.cleanup()


def run_case(case):
    seed, idx, tier = case
    if idx >= 100000:
        return run_case_e(case)
    rng = random.Random("c05-%d-%d" % (seed, idx))
    variant = "asan" if idx % 4 == 3 else "plain"
    res = dict(key=None, violations=[], counters={}, nontrivial=False)
    V = res["violations"]
    cfg = scen.gen_config(rng, max_nd=4, max_lev=3, force=dict(hashsize=16), allow_splits=rng.random() < 0.2)
    a, fs, state0, hist, cfg = build_synced_array(rng, "c05", cfg, variant, rounds=rng.randint(0, 1), want_migration=False)
    try:
        # ---- second phase: pending changes and an incomplete / disturbed sync
        kind = ["complete", "partial", "killed", "testrun", "testrun", "copy", "replace-same-place", "replace-longer", "killed-delete", "killed-delete", "copy-replaced"][idx % 11]
        forced_victim = None
        partner = None
        if kind in ("replace-same-place", "replace-longer"):
            # the shape of the two hand-found histories: a synced file is replaced by another one at the same position
            c0 = a.load_content()
            n2i = {n.encode(): i for i, n in enumerate(a.disk_names)}
            sm0 = c0.stripe_map()
            cands = []
            for f in c0.files:
                d = n2i[c0.disk_name(f.disk)]
                e = fs.entries[d].get(f.sub)
                if e is None or e[0] != "file" or not f.blocks or fs.links_of(d, f.sub):
                    continue
                if kind == "replace-longer" and f.blocks[0][0] != 0:
                    continue
                # a file of another disk sharing one of its stripes
                others = [(n2i[c0.disk_name(x[0])], x[2].sub) for pos, _s, _h in f.blocks for x in sm0.get(pos, []) if x[1] == "file" and x[0] != f.disk]
                cands.append((d, f.sub, others))
            if cands:
                d, s, others = rng.choice(cands)
                old = fs.entries[d][s][1]
                fs.remove(d, s)
                newlen = len(old) if kind == "replace-same-place" else len(old) + rng.randint(1, 2 * a.bs)
                newsub = b"new-" + s.split(b"/")[-1]
                if scen._clear_path(fs, d, newsub):
                    fs.write(d, newsub, A.gen_bytes(rng, newlen, "rand"))
                    forced_victim = (d, newsub)
                    others = [o for o in others if o[1] in fs.entries[o[0]] and fs.entries[o[0]][o[1]][0] == "file" and not fs.links_of(o[0], o[1])]
                    if others:
                        partner = rng.choice(others)
        elif kind == "killed-delete":
            # only deletions pending, parity updated, final content never written; new data arrives afterwards
            cands = [(d, s) for (d, s) in fs.files() if len(fs.entries[d][s][1]) > 0 and not fs.links_of(d, s)]
            for (d, s) in rng.sample(cands, min(len(cands), rng.randint(1, 2))):
                fs.remove(d, s)
        else:
            scen.mutate(fs, rng, rng.randint(2, 7), hostile=0.1, maxblocks=4)
        copy_at = None
        if kind == "copy-replaced" and len(a.disks) > 1:
            # a copy (same name, size, time-stamp: its blocks inherit the hashes and wait for a sync that never reaches them)
            # is removed again and another file takes its place, still before any sync reaches those stripes
            fl = [x for x in fs.files() if len(fs.entries[x[0]][x[1]][1]) > 0 and not fs.links_of(x[0], x[1])]
            if fl:
                d, s = rng.choice(fl)
                d2 = rng.choice([x for x in a.disks if x != d])
                if scen._clear_path(fs, d2, s):
                    fs.copy(d, s, d2, s)
                    copy_at = (d2, s)
        if kind == "copy":
            fl = [x for x in fs.files() if len(fs.entries[x[0]][x[1]][1]) > 0]
            if fl and len(a.disks) > 1:
                d, s = rng.choice(fl)
                d2 = rng.choice([x for x in a.disks if x != d])
                if scen._clear_path(fs, d2, s):
                    fs.copy(d, s, d2, s)
        args = ["-E", "-Z"]
        post = None
        if kind == "copy-replaced":
            args += rng.choice([["-B", "1"], ["-S", "0", "-B", "1"], ["-S", "0", "-B", "2"]])
        elif kind in ("partial", "replace-longer") or (kind == "replace-same-place" and rng.random() < 0.5):
            args += ["-S", str(rng.randint(1, 4)), "-B", str(rng.randint(1, 6))]
        elif kind in ("killed", "killed-delete"):
            args += ["--test-kill-after-sync"]
        if kind in ("testrun",) or (kind == "replace-same-place" and "-S" not in args):
            # between scan and sync: rewrite / remove / chmod a plain-named file so that its stripes are skipped
            plain = [(d, s) for (d, s) in fs.files() if len(fs.entries[d][s][1]) > 0 and not fs.links_of(d, s) and (d, s) != forced_victim]
            if not plain:
                fs.write(a.disks[-1], b"plain-victim", A.gen_bytes(rng, 2 * a.bs + 5, "rand"))
                plain = [(a.disks[-1], b"plain-victim")]
            d, s = partner if partner else rng.choice(plain)
            p = fs.path(d, s)
            how = rng.choice(["rewrite", "remove", "touch"])
            e = fs.entries[d][s]
            if how == "rewrite":
                newdata = A.gen_bytes(rng, len(e[1]), "rand")
                tmp = os.path.join(a.root, "newdata.bin")
                with open(tmp, "wb") as f:
                    f.write(newdata)
                mt = fs.clock.next()
                script = "cat %s > %s && touch -d @%d.%09d %s" % (shell_quote(os.fsencode(tmp)), shell_quote(p), mt // 10**9, mt % 10**9, shell_quote(p))
                post = ("rewrite", d, s, newdata, mt)
            elif how == "remove":
                script = "rm -f %s" % shell_quote(p)
                post = ("remove", d, s)
            else:
                mt = fs.clock.next()
                script = "touch -d @%d.%09d %s" % (mt // 10**9, mt % 10**9, shell_quote(p))
                post = ("touch", d, s, mt)
            args += ["--test-run", script]
        r = a.cmd("sync", *args, variant=variant)
        hist.append(("sync2", [x if not x.startswith(("cat ", "rm ", "touch ")) else "<cmd>" for x in args], r.rc))
        for s_ in r.san:
            V.append(("sanitizer:" + A.san_key(s_), s_[:2000], {"case": list(case)}))
        if post:
            if post[0] == "rewrite":
                _k, d, s, nd_, mt = post
                fs.entries[d][s] = ("file", nd_, mt)
                fs._remember(d, s, nd_, mt)
            elif post[0] == "remove":
                _k, d, s = post
                fs.entries[d].pop(s, None)
            else:
                _k, d, s, mt = post
                e = fs.entries[d][s]
                fs.entries[d][s] = ("file", e[1], mt)
                fs._remember(d, s, e[1], mt)
        # ---- optional third phase: after a killed / partial sync, new files land on freed positions and are
        # stored by a partial sync that never reaches their stripes
        phase3_new = []
        if copy_at is not None and copy_at[1] in fs.entries[copy_at[0]]:
            n_ = len(fs.entries[copy_at[0]][copy_at[1]][1])
            fs.remove(*copy_at)
            nm = b"took-the-place-of-the-copy"
            if scen._clear_path(fs, copy_at[0], nm):
                fs.write(copy_at[0], nm, A.gen_bytes(rng, n_, "rand"))
                forced_victim = (copy_at[0], nm)
            r3 = a.cmd("sync", "-E", "-Z", *rng.choice([["-B", "1"], ["-S", "0", "-B", "1"], ["-S", "0", "-B", "2"]]), variant=variant)
            hist.append(("sync3-partial-after-copy-replaced", r3.rc))
        if kind in ("killed", "partial", "complete", "killed-delete") and (kind == "killed-delete" or rng.random() < 0.6):
            for q in range(rng.randint(1, 3)):
                d3 = rng.choice(a.disks)
                nm = b"late-%d" % q
                if scen._clear_path(fs, d3, nm):
                    fs.write(d3, nm, A.gen_bytes(rng, rng.randint(1, 3 * a.bs), "rand"))
                    phase3_new.append((d3, nm))
            r3 = a.cmd("sync", "-E", "-Z", "-S", str(rng.choice([0, 0, 1, 2])), "-B", str(rng.choice([1, 1, 2])), variant=variant)
            hist.append(("sync3-partial", r3.rc))
        try:
            c = a.load_content()
        except (FileNotFoundError, cnt.DecodeError) as ex:
            raise scen.CaseError("no content after phase 2: %s" % ex)
        name2idx = {n.encode(): i for i, n in enumerate(a.disk_names)}
        # ---- damage (detectable kinds only)
        ndev = rng.randint(0, len(a.disks) + a.nlev)
        devs = rng.sample([("data", d) for d in a.disks] + [("parity", l) for l in range(a.nlev)], ndev)
        dmg_desc = []
        targeted = False
        if phase3_new and rng.random() < 0.45:
            # a late (recorded, never synced) file is lost TOGETHER with as many synced files of its stripes as there are
            # parity levels: more unknowns than parities unless the never-synced block is treated as what it was before
            sm_ = c.stripe_map()
            for (d3, nm) in rng.sample(phase3_new, len(phase3_new)):
                rec = [f for f in c.files if f.sub == nm and name2idx[c.disk_name(f.disk)] == d3]
                if not rec or not rec[0].blocks or any(b[1] == BLK for b in rec[0].blocks):
                    continue
                mates = {}
                for (pos, _st, _h) in rec[0].blocks:
                    for e in sm_.get(pos, []):
                        if e[1] == "file" and e[4] == BLK and e[2] is not rec[0]:
                            mates.setdefault(name2idx[c.disk_name(e[0])], e[2])
                if len(mates) >= a.nlev:
                    try:
                        os.unlink(fs.path(d3, nm))
                    except OSError:
                        continue
                    dmg_desc.append(("delete-late-file", a.disk_names[d3]))
                    for dm in rng.sample(sorted(mates), a.nlev):
                        try:
                            os.unlink(os.path.join(os.fsencode(a.ddir(dm)), mates[dm].sub))
                            dmg_desc.append(("delete-synced-stripe-mate", a.disk_names[dm]))
                        except OSError:
                            pass
                    devs = []
                    targeted = True
                    res["counters"]["late_file_lost_with_stripe_mates"] = 1
                    break
        if phase3_new and not targeted and rng.random() < 0.7:
            for (d3, nm) in phase3_new:
                if rng.random() < 0.7:
                    try:
                        os.unlink(fs.path(d3, nm))
                        dmg_desc.append(("delete-late-file", a.disk_names[d3]))
                    except OSError:
                        pass
            if rng.random() < 0.6:
                devs = []
        if forced_victim and rng.random() < 0.8:
            # the replaced file is lost (and usually nothing else)
            try:
                os.unlink(fs.path(*forced_victim))
                dmg_desc.append(("delete-new-file", a.disk_names[forced_victim[0]]))
            except OSError:
                pass
            if rng.random() < 0.7:
                devs = []
        for kind_, i in devs:
            if kind_ == "parity":
                how = rng.choice(["delete", "zero", "flips", "random"])
                for pth in a.ppaths(i):
                    scen.damage_parity_file(pth, rng, how)
                dmg_desc.append(("parity", i, how))
            else:
                how = rng.choice(["wipe", "delete", "truncate", "flip-hashed"])
                recs = [f for f in c.files if name2idx[c.disk_name(f.disk)] == i]
                if how == "wipe":
                    keep = {cp: open(cp, "rb").read() for cp in a.cpaths() if cp.startswith(a.ddir(i) + "/") and os.path.exists(cp)}
                    scen.wipe_disk(a, i)
                    for cp, data in keep.items():
                        with open(cp, "wb") as f:
                            f.write(data)
                elif how == "delete":
                    for f in rng.sample(recs, min(len(recs), rng.randint(1, 4))):
                        try:
                            os.unlink(os.path.join(os.fsencode(a.ddir(i)), f.sub))
                        except OSError:
                            pass
                elif how == "truncate":
                    for f in rng.sample(recs, min(len(recs), rng.randint(1, 3))):
                        p = os.path.join(os.fsencode(a.ddir(i)), f.sub)
                        try:
                            if f.size > 0:
                                with open(p, "r+b") as fh:
                                    fh.truncate(rng.randint(0, f.size - 1))
                        except OSError:
                            pass
                else:
                    # flips only in blocks whose recorded hash is the hash of the present data (BLK, or REP)
                    tg = [(f, bi) for f in recs for bi, b in enumerate(f.blocks) if b[1] == BLK]
                    for (f, bi) in rng.sample(tg, min(len(tg), rng.randint(1, 4))):
                        dmg.damage_file_block(a, c, f, bi, rng, rng.choice(["bit", "block"]))
                dmg_desc.append(("data", a.disk_names[i], how))
        # ---- fix
        fargs = list(rng.choice([[], [], [], ["-e"], ["-m"], ["-d", a.disk_names[rng.choice(a.disks)]], ["-f", "*a*"], ["-m", "-f", "*e*"]]))
        if rng.random() < 0.25:
            # an import directory holding EVERY version the user ever had of the files (old backups): fix may take from it
            # only blocks whose recorded hash is the hash of the present, wanted data - never the old occupant of a position
            imp = os.path.join(a.root, "import")
            os.makedirs(imp, exist_ok=True)
            for k_, ((dd_, sub_, size_, sec_, ns_), data_) in enumerate(list(fs.store.items())[:80]):
                if not data_:
                    continue
                p_ = os.path.join(imp, "v%d" % k_)
                with open(p_, "wb") as fh_:
                    fh_.write(data_)
                os.utime(p_, ns=(sec_ * 10**9 + ns_, sec_ * 10**9 + ns_))
            fargs += [rng.choice(["-i", "--test-import-content"]), imp]
            res["counters"]["fix_runs_with_import_dir_of_old_versions"] = 1
        before = {d: A.snapshot(a.ddir(d)) for d in a.disks}
        # unknown file that must never be written
        stray = os.path.join(a.ddir(a.disks[0]), "stray-unknown-to-content")
        with open(stray, "wb") as f:
            f.write(b"do not touch")
        before = {d: A.snapshot(a.ddir(d)) for d in a.disks}
        rf = a.cmd("fix", *fargs, variant=variant)
        for s_ in rf.san:
            V.append(("sanitizer:" + A.san_key(s_), s_[:2000], {"case": list(case)}))
        after = {d: A.snapshot(a.ddir(d)) for d in a.disks}
        rep = {"case": list(case), "cfg": cfg, "history": hist, "damage": dmg_desc, "fix_args": fargs}
        label = "history %s, damage %s, fix %s rc=%s" % ([h[0] for h in hist], dmg_desc, fargs, rf.rc)
        res["counters"]["fix_runs"] = 1
        if rf.timeout:
            res["inconclusive"] = "fix timeout"
            return res
        unrec = {(t[2], t[3]) for t in rf.tag("status") if len(t) >= 4 and t[1] == b"unrecoverable"}
        recov = {(t[2], t[3]) for t in rf.tag("status") if len(t) >= 4 and t[1] == b"recovered"}
        nun = rf.summary("error_unrecoverable")
        nun = int(nun[0]) if nun else 0
        nfiles = 0

        def inputs_dmg(dn_):
            """did the harness damage parity, or data of a disk other than dn_ (the other inputs of the rebuild)?"""
            for x in dmg_desc:
                if x[0] == "parity":
                    return True
                if x[0] == "data" and x[1].encode() != dn_:
                    return True
            return False
        for f in c.files:
            d = name2idx[c.disk_name(f.disk)]
            dn = c.disk_name(f.disk)
            want = fs.lookup(d, f.sub, f.size, f.mtime_sec, f.mtime_nsec if f.mtime_nsec >= 0 else 0)
            if want is None:
                res["counters"]["files_unknown_version"] = res["counters"].get("files_unknown_version", 0) + 1
                continue
            p = os.path.join(os.fsencode(a.ddir(d)), f.sub)
            nfiles += 1
            changed_by_fix = before[d].get(f.sub) != after[d].get(f.sub)
            try:
                with open(p, "rb") as fh:
                    got = fh.read()
            except OSError:
                got = None
            reported = (dn, f.sub) in unrec
            if (dn, f.sub) in recov and got != want:
                key = "reported-recovered-with-wrong-bytes/" + (diagnose(a, fs, c, f, got or b"", want, inputs_dmg(dn)) if got is not None else "file-missing")
                V.append((key, "%s: %s:%r tagged status:recovered but holds %s" % (label, dn.decode(), f.sub,
                          "other bytes (%d differing)" % sum(1 for x, y in zip(got, want) if x != y) if got is not None else "nothing"), rep))
                continue
            if got is None or got == want:
                if got is None and not reported and changed_by_fix and not os.path.exists(p + b".unrecoverable"):
                    V.append(("fix-removed-file-without-report", "%s: %r" % (label, f.sub), rep))
                continue
            # wrong bytes under the real name
            if not changed_by_fix:
                continue  # fix did not touch it (outside the selection, or left as found): it did not produce it
            if reported and rf.rc != 0:
                # reported, but the damaged file must not stay under its name
                V.append(("unrecoverable-file-left-under-its-name", "%s: %r reported unrecoverable yet present with wrong bytes" % (label, f.sub), rep))
                continue
            if b"Stopping at block" in rf.err and rf.rc != 0:
                # fix gave up with a fatal message in the middle of the array (e.g. a recorded file's path is now a directory
                # and cannot be opened): the run is announced as incomplete, files it had begun are not "left as if correct"
                res["counters"]["files_left_by_a_fix_that_stopped_with_a_fatal_error"] = res["counters"].get("files_left_by_a_fix_that_stopped_with_a_fatal_error", 0) + 1
                continue
            key = "wrong-bytes-written-without-report/" + diagnose(a, fs, c, f, got, want, inputs_dmg(dn))
            V.append((key, "%s: %s:%r written by fix with bytes that are not the recorded version and not reported (rc=%s, unrecoverable=%d)" %
                      (label, dn.decode(), f.sub, rf.rc, nun), rep))
        res["counters"]["files_judged"] = nfiles
        # exit status must reflect unrecoverable reports
        if unrec and rf.rc == 0:
            V.append(("unrecoverable-reported-but-exit-ok", label, rep))
        # nothing unknown to the content file or outside the selection may be written
        known = {(name2idx[c.disk_name(f.disk)], f.sub) for f in c.files} | {(name2idx[c.disk_name(l["disk"])], l["sub"]) for l in c.links} | \
                {(name2idx[c.disk_name(x["disk"])], x["sub"]) for x in c.dirs}
        own = scen.content_copy_subs(a)
        for d in a.disks:
            for (pth, what, x, y) in A.snap_diff(before[d], after[d]):
                if pth in own[d]:
                    continue
                base = pth[:-len(b".unrecoverable")] if pth.endswith(b".unrecoverable") else pth
                if (d, base) in known:
                    if "-d" in fargs and a.disk_names[d] != fargs[fargs.index("-d") + 1]:
                        V.append(("fix-writes-outside-selection:-d", "%s: %s %r on %s" % (label, what, pth, a.disk_names[d]), rep))
                    continue
                if y is not None and y[0] == "dir" and any(k[0] == d and k[1].startswith(pth + b"/") for k in known):
                    continue
                if x is not None and x[0] == "dir" and y is not None and y[0] == "dir":
                    continue
                V.append(("fix-writes-path-unknown-to-content", "%s: %s %r" % (label, what, pth), rep))
        res["nontrivial"] = nfiles > 0
        res["key"] = "%s|%s|%s|%s" % (sorted((k, str(v)) for k, v in cfg.items()), [h[0] for h in hist], dmg_desc, fargs)
        res["sample"] = {"cfg": cfg, "history": evidence.jsonable(hist), "damage": dmg_desc, "fix": fargs}
        return res
    finally:
        a.cleanup()


def main(tier, seed, replay, jobs, scale):
    run = evidence.Run("C05", tier, seed, "exploration", RULE)
    if replay:
        import json
        cases = [tuple(json.load(open(replay))["replay"]["case"])]
    else:
        n = int((1200 if tier == "quick" else 40000) * scale)
        cases = [(seed, i, tier) for i in range(n)]
        # fix -e / -b on bad-marked stripes whose files the user went on changing after the sync
        cases += [(seed, 100000 + i, tier) for i in range(max(4, n // 8))]
    par.absorb(run, par.run_cases(run_case, cases, jobs))
    run.assumptions += ["only detectable damage is injected; hash size 16",
                        "a file fix did not touch is not 'produced' by fix (it may be outside the selection)",
                        "the recorded version is looked up in the harness's version store by disk/path/size/mtime of the decoded record"]
    return run.finish(min_eval=max(1, len(cases) // 2), min_nontrivial=min(20, len(cases)))
