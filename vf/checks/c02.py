"""C02 Parity equals its algebraic definition in every implementation."""
from concurrent.futures import ThreadPoolExecutor

from .. import evidence, raidmon

RULE = ("every exported raid_gen*_<variant> the CPU can run is called directly (names scraped from the objects of the "
        "current tree) and through the dispatcher in both modes; inputs: dense/sparse random data for every nd 1..251, "
        "sizes 64..4160 (thorough: to 256 KiB), and the complete byte basis (every value in every 64-byte lane, one disk "
        "at a time); expected parity = matrix product from the definition of GF(2^8)/0x11d (never tables.c); data blocks, "
        "canary slack, pointer vector and PROT_NONE guard pages monitored; every exported table entry compared with the "
        "definition. A case is non-trivial/distinct per (kernel, nd, size, data kind, guard side); counted per kernel call.")


def main(tier, seed, replay, jobs, scale):
    run = evidence.Run("C02", tier, seed, "exploration", RULE)
    variants = [("plain", False), ("asan-c", False)]
    if tier == "thorough":
        variants += [("asan", False)]
    tasks = []
    kernels_by_variant = {}
    for v, _ in variants:
        _exe, names = raidmon.binary(v)
        kernels_by_variant[v] = names
        tasks.append((v, ["tables"], False))
        tasks.append((v, ["gen", seed, tier, "__dispatch_only__"], False))
        for n in names:
            if "_gen" in n:
                tasks.append((v, ["gen", seed, tier, n], False))
    if tier == "thorough":
        # memcheck sees what ASan cannot: accesses and uninitialised reads made by inline asm
        for n in kernels_by_variant["plain"]:
            if "_gen" in n and ("avx2" in n or "ssse3" in n or "sse2" in n):
                tasks.append(("plain", ["gen", seed, "quick", n], True))

    def work(t):
        v, args, vg = t
        return t, raidmon.run(v, args, timeout=7200, valgrind=vg)

    gen_variants = set()
    with ThreadPoolExecutor(max_workers=jobs) as ex:
        for (v, args, vg), r in ex.map(work, tasks):
            label = "%s:%s%s" % (v, " ".join(str(a) for a in args), ":memcheck" if vg else "")
            if r["timeout"]:
                run.inconc("timeout " + label)
                continue
            for key, detail in r["viol"]:
                run.violation(key, "%s: %s" % (label, detail), {"variant": v, "args": args})
            if not r["done"] and not r["viol"]:
                # sanitizer / valgrind / crash without our own report
                key = "harness-abort:" + (args[3] if len(args) > 3 else args[0])
                run.violation(key, "%s rc=%s stderr=%s" % (label, r["rc"], r["err"][-1500:]), {"variant": v, "args": args})
            elif r["rc"] not in (0,) and not r["viol"]:
                run.violation("sanitizer:" + (args[3] if len(args) > 3 else args[0]),
                              "%s rc=%s stderr=%s" % (label, r["rc"], r["err"][-1500:]), {"variant": v, "args": args})
            st = r["stats"]
            run.count("kernel_calls", st.get("calls", 0))
            run.count("table_entries_checked", st.get("table_entries", 0))
            for k in st:
                if k.startswith("kernel_"):
                    gen_variants.add((v, k[7:]))
            n = st.get("cases", 0)
            for i in range(n):
                run.evaluations += 1
            if n:
                run.nontrivial.add(label)
            if args[0] == "tables":
                run.evaluations += 1
                run.nontrivial.add(label)
                if st.get("table_entries", 0) < 60000:
                    run.inconc("tables run checked too little: %s" % st)
    run.extra["variants_run"] = sorted("%s/%s" % x for x in gen_variants)
    run.extra["builds"] = [v for v, _ in variants]
    run.extra["tables_exhaustive"] = True
    run.extra["distinct_nontrivial_note"] = "counted per (build, kernel) process; each covers nd 1..251 x sizes x byte basis"
    run.sample({"kernel": "raid_gen6_avx2ext", "nd": 251, "size": 16384, "data": "byte basis on disk d, others zero, d=0..250"})
    run.sample({"kernel": "raid_gen3_int8", "nd": 33, "size": 256, "data": "dense random"})
    run.assumptions += ["the CPU of the sandbox supports sse2, ssse3, avx2 (kernels it cannot run are listed as skipped)",
                        "asan-c build uses a scratch config.h with assembly off so every access of the portable kernels is instrumented"]
    if not gen_variants:
        run.inconc("no kernel ran")
    return run.finish(min_eval=100, min_nontrivial=10)
