"""C18 Include/exclude and selection filters follow the documented rules."""
import os
import shutil
import random
import subprocess

from .. import arr as A
from .. import build, cmdmon, content as cnt
from .. import evidence, filt, par, scen
from .c10 import list_dump

RULE = ("reference model = the documented rules (first match decides; default opposite of the last rule; unrooted patterns on any "
        "component of the right kind; rooted patterns on the path with wildcards never crossing a slash; directory patterns take "
        "everything below; nohidden; the tool's own files always excluded), with an independent glob matcher. (1) library level: the "
        "real filter_path / filter_subdir / filter_emptydir are called through a harness linked with the current objects on random "
        "(rule list, path) pairs from a grammar of literals, *, ?, [a-c], [!x] and escapes; (2) process level: random rule lists x "
        "random trees -> sync -> list -l and decoded content vs the model's selection of files and links; (3) selection options: on "
        "damaged arrays fix/check with -f / -d / -m / -e must report and write exactly the files in the selection (snapshot + tags). "
        "Recorded symlinks (valid and dangling targets), removed or re-pointed before the fix, are entries of the selection like any other. The content lines are reordered between syncs: no <content>, .tmp or .lock name of any configured copy may be recorded. distinct = (rules, path) pairs and (rules, tree) cases.")

ALPHA = "abcx1_."


def _unmatched(res):
    from .. import findings
    return len([v for v in res["violations"] if findings.match("C18", v[0]) is None])


def gen_name(rng, maxlen=4):
    return "".join(rng.choice(ALPHA) for _ in range(rng.randint(1, maxlen))).lstrip(".") or "a"


def gen_glob(rng, name=None):
    """A glob derived from a name (so that it matches reasonably often) or random."""
    if name is None or rng.random() < 0.3:
        name = gen_name(rng)
    out = []
    for ch in name:
        k = rng.random()
        if k < 0.55:
            out.append("\\" + ch if ch in "*?[]\\" else ch)
        elif k < 0.7:
            out.append("?")
        elif k < 0.82:
            out.append("*")
        elif k < 0.9:
            lo = chr(max(ord("a"), ord(ch) - 1)) if ch.isalpha() else ch
            hi = chr(min(ord("z"), ord(ch) + 1)) if ch.isalpha() else ch
            out.append("[%s-%s]" % (lo, hi) if lo != hi else "[%s]" % ch)
        elif k < 0.95:
            out.append("[!%s]" % rng.choice("qz9"))
        else:
            out.append("*")
            break
    if rng.random() < 0.1:
        out.append("*")
    return "".join(out)


def gen_rule(rng, paths):
    inc = rng.random() < 0.45
    base = rng.choice(paths) if paths and rng.random() < 0.75 else "/".join(gen_name(rng) for _ in range(rng.randint(1, 3)))
    parts = base.split("/")
    kind = rng.choice(["file", "dir", "rfile", "rdir"])
    if kind == "file":
        pat = gen_glob(rng, parts[-1])
    elif kind == "dir":
        pat = gen_glob(rng, rng.choice(parts[:-1]) if len(parts) > 1 else parts[0]) + "/"
    elif kind == "rfile":
        pat = "/" + "/".join(gen_glob(rng, p) for p in parts)
    else:
        k = rng.randint(1, max(1, len(parts) - 1))
        pat = "/" + "/".join(gen_glob(rng, p) for p in parts[:k]) + "/"
    return filt.Rule(inc, pat)


def gen_paths(rng, n):
    dirs = [""]
    for _ in range(rng.randint(1, 5)):
        b = rng.choice(dirs)
        dirs.append((b + "/" if b else "") + gen_name(rng))
    out = []
    for _ in range(n):
        b = rng.choice(dirs)
        out.append((b + "/" if b else "") + gen_name(rng))
    return sorted(set(out)), [d for d in dirs if d]


def esc(s):
    return "".join("%%%02x" % ord(c) if (ord(c) <= 32 or c == "%" or ord(c) > 126) else c for c in s)


def run_library(case):
    _k, seed, idx, tier = case
    rng = random.Random("c18-lib-%d-%d" % (seed, idx))
    res = dict(key="lib-%d" % idx, violations=[], counters={}, nontrivial=False)
    variant = "asan" if idx % 3 == 2 else "plain"
    nsets = 150 if tier == "quick" else 1500
    reqs = []
    expect = []
    meta = []
    for si in range(nsets):
        paths, dirs = gen_paths(rng, rng.randint(4, 10))
        rules = [gen_rule(rng, paths + dirs) for _ in range(rng.randint(0, 5))]
        rules = [r for r in rules if r.valid]
        reqs.append("R")
        expect.append(None)
        meta.append(None)
        for r in rules:
            reqs.append(("I " if r.include else "E ") + esc(r.raw))
            expect.append("x")
            meta.append(r.raw)
        for p in paths:
            reqs.append("P d1 " + esc(p))
            expect.append(("p", 0 if filt.decide(rules, p, False) else -1))
            meta.append((rules, p, "file"))
        for d in dirs:
            reqs.append("D d1 " + esc(d))
            expect.append(("d", 0 if filt.decide(rules, d, True, True) else -1))
            meta.append((rules, d, "subdir"))
            reqs.append("M d1 " + esc(d))
            expect.append(("m", 0 if filt.decide(rules, d, True, False) else -1))
            meta.append((rules, d, "emptydir"))
    rc, out, err = cmdmon.run(variant, ["filter"], stdin=("\n".join(reqs) + "\n").encode("latin-1"), timeout=600)
    if rc != 0:
        res["violations"].append(("filter-harness-fails", "rc=%s %s" % (rc, err[-1500:].decode("latin-1")), {"case": list(case)}))
        return res
    lines = out.decode("latin-1").splitlines()
    li = 0
    n = 0
    for q, ex, mt in zip(reqs, expect, meta):
        if ex is None:
            continue
        if li >= len(lines):
            res["violations"].append(("filter-harness-short-output", "%d of %d answers" % (li, len(reqs)), {"case": list(case)}))
            break
        ans = lines[li]
        li += 1
        if ex == "x":
            if not ans.startswith("x ok"):
                res["violations"].append(("valid-pattern-refused", "pattern %r refused: %s" % (mt, ans), {"case": list(case), "pattern": mt}))
            continue
        kind, want = ex
        got = int(ans.split()[1])
        n += 1
        if (got != 0) != (want != 0):
            rules, p, what = mt
            res["violations"].append(("filter-differs-from-documented-rules:" + what,
                                      "rules %s, %s %r: tool says %s, documented rules say %s" %
                                      ([("include " if r.include else "exclude ") + r.raw for r in rules], what, p,
                                       "included" if got == 0 else "excluded", "included" if want == 0 else "excluded"),
                                      {"case": list(case), "rules": [[r.include, r.raw] for r in rules], "path": p, "kind": what}))
            if _unmatched(res) >= 5:
                break
    res["counters"]["library_pairs"] = n
    res["nontrivial"] = n > 0
    res["n"] = n
    res["sample"] = {"rules": [("include " if r.include else "exclude ") + r.raw for r in (meta[-1][0] if isinstance(meta[-1], tuple) else [])], "path": meta[-1][1] if isinstance(meta[-1], tuple) else None}
    return res


def run_process(case):
    _k, seed, idx, tier = case
    rng = random.Random("c18-proc-%d-%d" % (seed, idx))
    res = dict(key="proc-%d" % idx, violations=[], counters={}, nontrivial=False)
    variant = "asan" if idx % 4 == 3 else "plain"
    paths, dirs = gen_paths(rng, rng.randint(6, 16))
    hidden = rng.random() < 0.4
    if hidden:
        paths += [".hid", (dirs[0] + "/.h2") if dirs else ".h3"]
        dirs_hidden = [".hdir"]
        paths += [".hdir/inside"]
    rules = [r for r in (gen_rule(rng, paths + dirs) for _ in range(rng.randint(0, 5))) if r.valid]
    conf_rules = [("include " if r.include else "exclude ") + r.raw for r in rules]
    nohidden = hidden and rng.random() < 0.6
    cfg = dict(nd=2, nlev=1, hashsize=16, ncontent=2, content_on_data=True,
               extra_conf=conf_rules + (["nohidden"] if nohidden else []))
    # a third of the cases keep the content copy of the data disk in a sub-directory of it (the tool's own content, lock and
    # temporary files are never part of the array, wherever they are)
    subdir = rng.choice(["_cnt_.d", "_cnt_.d/deeper"]) if idx % 3 == 0 else None
    if subdir:
        cfg["content_subdir"] = subdir
    a, fs = scen.make(rng, cfg, "c18")
    try:
        # tree (same on both disks with different content); files vs dirs conflicts resolved by the model
        present = {}
        for d in a.disks:
            for p in paths:
                pb = p.encode("latin-1")
                if scen._clear_path(fs, d, pb):
                    fs.write(d, pb, A.gen_bytes(rng, rng.randint(0, 2500)))
                    present[(d, p)] = "file"
            for p in rng.sample(paths, min(2, len(paths))):
                lb = (p + "_lnk").encode("latin-1")
                if scen._clear_path(fs, d, lb):
                    fs.symlink(d, lb, b"target")
                    present[(d, p + "_lnk")] = "link"
        r = a.cmd("sync", variant=variant)
        rep = {"case": list(case), "rules": conf_rules, "nohidden": nohidden}
        if r.rc != 0:
            if b"Invalid" in r.err or b"invalid" in r.err:
                res["violations"].append(("valid-pattern-refused", "sync refused the configuration: %s" % r.err[-200:].decode("latin-1"), rep))
            else:
                res["inconclusive"] = "sync failed: %s" % r.err[-200:].decode("latin-1")
            return res
        if subdir:
            # the copies exist only after the first sync: scan again
            r = a.cmd("sync", variant=variant)
            res["counters"]["content_in_subdir_cases"] = 1
            if r.rc != 0:
                res["violations"].append(("second-sync-fails-with-content-in-subdir", "sync rc=%s %s" % (r.rc, r.err[-300:].decode("latin-1")), rep))
                return res
        _r, lfiles, llinks = list_dump(a, variant)
        got = {(t[0].decode(), t[1].decode("latin-1")) for t in lfiles} | {(t[1].decode(), t[2].decode("latin-1")) for t in llinks}
        own = scen.content_copy_subs(a)
        want = set()
        for (d, p), kind in present.items():
            pb = p.encode("latin-1")
            if pb in own[d]:
                continue
            if nohidden and any(part.startswith(".") for part in p.split("/")):
                continue
            if filt.decide(rules, p, False):
                want.add((a.disk_names[d], p))
        res["counters"]["process_entries"] = len(present)
        if got != want:
            extra = sorted(got - want)
            miss = sorted(want - got)
            # diagnosis: is every missing entry below a directory that the rules exclude (the scan prunes it and never
            # looks at the file, although an earlier include rule matches the file itself)?
            def pruned(p_):
                parts = p_.split("/")
                return any(not filt.decide(rules, "/".join(parts[:k]), True, True) for k in range(1, len(parts)))
            if not extra and miss and all(pruned(p_) for (_d, p_) in miss):
                key = "recorded-set-differs-from-documented-rules/file-included-by-earlier-rule-but-directory-pruned"
            else:
                key = "recorded-set-differs-from-documented-rules"
            res["violations"].append((key, "rules %s nohidden=%s: recorded but should be excluded %s; missing but should be included %s" %
                                      (conf_rules, nohidden, extra[:3], miss[:3]), rep))
        # the order of the content lines changes: the lock file is created beside whichever copy is first, so a lock left
        # beside the copy on the data disk is now beside a non-first copy - it is still one of the tool's own files
        if idx % 2 == 0 and not res["violations"]:
            a.write_conf(first_content=1)
            r1 = a.cmd("sync", variant=variant)
            lockp = a.cpaths()[1] + ".lock"
            res["counters"]["lock_files_left_on_a_data_disk"] = 1 if os.path.exists(lockp) else 0
            a.write_conf(first_content=0)
            # something new to record, so that the scan result is saved
            nb = b"added-after-reorder"
            if scen._clear_path(fs, a.disks[0], nb):
                fs.write(a.disks[0], nb, A.gen_bytes(rng, 700))
                present[(a.disks[0], "added-after-reorder")] = "file"
            r2 = a.cmd("sync", variant=variant)
            if r1.rc != 0 or r2.rc != 0:
                res["violations"].append(("sync-fails-after-content-reorder", "rc %s, %s: %s" % (r1.rc, r2.rc, (r1.err + r2.err)[-300:].decode("latin-1")), rep))
            else:
                _r, lfiles, llinks = list_dump(a, variant)
                got2 = {(t[0].decode(), t[1].decode("latin-1")) for t in lfiles} | {(t[1].decode(), t[2].decode("latin-1")) for t in llinks}
                ownnames = {(a.disk_names[d_], s_.decode("latin-1")) for d_, subs in own.items() for s_ in subs}
                leaked = sorted(got2 & ownnames)
                if leaked:
                    res["violations"].append(("own-file-recorded-as-array-file", "after the content lines were reordered the array records %s" % leaked[:3], rep))
                elif "added-after-reorder" in [p_ for (_d, p_) in got2] and filt.decide(rules, "added-after-reorder", False) is False:
                    pass
        res["nontrivial"] = len(present) > 0
        res["n"] = 1
        res["sample"] = {"rules": conf_rules, "nohidden": nohidden, "paths": paths[:6]}
        return res
    finally:
        a.cleanup()


def run_selection(case):
    """check/fix with -f -d -m -e on damaged arrays: exactly the selected files are processed / written."""
    _k, seed, idx, tier = case
    rng = random.Random("c18-sel-%d-%d" % (seed, idx))
    res = dict(key="sel-%d" % idx, violations=[], counters={}, nontrivial=False)
    variant = "plain"
    cfg = dict(nd=3, nlev=2, hashsize=16, ncontent=1, content_on_data=False)
    a, fs = scen.make(rng, cfg, "c18s")
    try:
        paths, dirs = gen_paths(rng, rng.randint(8, 14))
        # siblings whose names merely EXTEND a directory name (DIR.txt, DIR2/x): prefix relations between paths
        ext_dir = rng.choice(dirs) if dirs else None
        if ext_dir is not None:
            for extra in (ext_dir + ".txt", ext_dir + "2/keep.dat", ext_dir + "zz"):
                if extra not in paths and not any(q.startswith(extra + "/") or extra.startswith(q + "/") for q in paths):
                    paths.append(extra)
        for d in a.disks:
            for p in paths:
                pb = p.encode("latin-1")
                if scen._clear_path(fs, d, pb):
                    fs.write(d, pb, A.gen_bytes(rng, rng.randint(1, 3000), "rand"))
        # symbolic links, pointing to something that exists and to nothing (dangling): for the selection a link is an entry
        # like any other - present or missing by its own name, whatever it points to
        links = {}
        tops = [p for p in paths if "/" not in p] or paths
        for d in a.disks:
            for k_ in range(rng.randint(2, 4)):
                nm = "%s%d" % (gen_name(rng), k_)
                ln = (rng.choice(dirs) + "/" + nm) if dirs and rng.random() < 0.5 else nm
                lb = ln.encode("latin-1")
                if ln in paths or any(q.startswith(ln + "/") for q in paths) or not scen._clear_path(fs, d, lb):
                    continue
                tgt = rng.choice([os.path.join(a.ddir(d), rng.choice(tops)).encode("latin-1"), b"no-such-target-%d" % k_])
                fs.symlink(d, lb, tgt)
                links[(d, ln)] = tgt
        r = a.cmd("sync", variant=variant)
        if r.rc != 0:
            raise scen.CaseError("sync failed")
        state = fs.clone_entries()
        # damage: delete a random subset of files on every disk (all recoverable: <= 2 per stripe is not guaranteed, so delete on one disk only, flip on another)
        d_del = rng.choice(a.disks)
        deleted = set()
        whole_dir = ext_dir is not None and rng.random() < 0.6
        for (d, s) in fs.files(d_del):
            sl = s.decode("latin-1")
            if (whole_dir and sl.startswith(ext_dir + "/")) or (not whole_dir and rng.random() < 0.6):
                os.unlink(fs.path(d, s))
                deleted.add((d, sl))
        if whole_dir:
            shutil.rmtree(fs.path(d_del, ext_dir.encode("latin-1")), ignore_errors=True)
            for (d, ln) in links:
                if d == d_del and ln.startswith(ext_dir + "/"):
                    deleted.add((d, ln))
        if not deleted:
            res["inconclusive"] = "nothing deleted"
            return res
        # files that are present but were changed by the user since the sync (new bytes, new time-stamp): with -m they are
        # outside the selection whatever their name; without -m a selected one is reverted to its synced content
        modified = set()
        for (d, s) in fs.files(d_del):
            sl = s.decode("latin-1")
            if (d, sl) in deleted:
                continue
            if (ext_dir is not None and sl.startswith(ext_dir) and not sl.startswith(ext_dir + "/")) or rng.random() < 0.15:
                with open(fs.path(d, s), "wb") as f:
                    f.write(A.gen_bytes(rng, rng.randint(1, 3000), "rand"))
                modified.add((d, sl))
        # links of that disk: removed, or re-pointed (to another existing file / to another name that does not exist)
        for (d, ln), tgt in sorted(links.items()):
            if d != d_del or not os.path.islink(fs.path(d, ln.encode("latin-1"))):
                continue
            k_ = rng.random()
            pl = fs.path(d, ln.encode("latin-1"))
            if k_ < 0.3:
                os.unlink(pl)
                deleted.add((d, ln))
            elif k_ < 0.75:
                os.unlink(pl)
                os.symlink(rng.choice([os.path.join(a.ddir(d), rng.choice(tops)).encode("latin-1") + b"x", b"other-missing-target", os.fsencode(a.ddir(d))]), pl)
                modified.add((d, ln))
        res["counters"]["links_recorded"] = len(links)
        # selection
        sel = rng.choice(["f", "d", "m", "fd", "m"])
        args = []
        frules = []
        fdisk = None
        if "f" in sel:
            frules = [filt.Rule(True, gen_rule(rng, paths + dirs).raw) for _ in range(rng.randint(1, 2))]
            frules = [r_ for r_ in frules if r_.valid] or [filt.Rule(True, "*a*")]
            for r_ in frules:
                args += ["-f", r_.raw]
        if "d" in sel:
            fdisk = rng.choice(a.disks)
            args += ["-d", a.disk_names[fdisk]]
        if sel == "m":
            args += ["-m"]
        before = {d: A.snapshot(a.ddir(d)) for d in a.disks}
        r = a.cmd("fix", *args, variant=variant)
        after = {d: A.snapshot(a.ddir(d)) for d in a.disks}
        rep = {"case": list(case), "args": args, "deleted": sorted(deleted)[:8]}
        written = set()
        for d in a.disks:
            for (p, what, x, y) in A.snap_diff(before[d], after[d]):
                if y is not None and y[0] == "dir":
                    continue
                written.add((d, p.decode("latin-1")))
        def selected(d, p):
            if fdisk is not None and d != fdisk:
                return False
            if frules and not filt.decide(frules, p, False):
                return False
            return True
        want = {(d, p) for (d, p) in deleted if selected(d, p)}
        if sel != "m":
            want |= {(d, p) for (d, p) in modified if selected(d, p)}
        res["counters"]["selection_runs"] = 1
        res["counters"]["modified_survivors"] = len(modified)
        res["counters"]["whole_dir_deleted"] = 1 if whole_dir else 0
        if written - want:
            res["violations"].append(("fix-writes-outside-selection", "fix %s wrote %s outside the selection (selected+missing: %s)" % (args, sorted(written - want)[:3], sorted(want)[:3]), rep))
        elif want - written:
            res["violations"].append(("fix-skips-file-inside-selection", "fix %s (rc=%s) did not restore %s" % (args, r.rc, sorted(want - written)[:3]), rep))
        else:
            # restored content must be right
            for (d, p) in want:
                e = state[d][p.encode("latin-1")]
                if e[0] == "symlink":
                    pl = fs.path(d, p.encode("latin-1"))
                    if not os.path.islink(pl) or os.readlink(pl) != e[1]:
                        res["violations"].append(("fix-wrong-link-under-filter", "%r" % p, rep))
                        break
                    continue
                if e[0] != "file":
                    continue
                with open(fs.path(d, p.encode("latin-1")), "rb") as f:
                    if f.read() != e[1]:
                        res["violations"].append(("fix-wrong-content-under-filter", "%r" % p, rep))
                        break
        res["nontrivial"] = True
        res["n"] = 1
        res["sample"] = {"args": args, "deleted": len(deleted), "selected": len(want)}
        return res
    finally:
        a.cleanup()


def dispatch(case):
    return {"lib": run_library, "proc": run_process, "sel": run_selection}[case[0]](case)


def main(tier, seed, replay, jobs, scale):
    run = evidence.Run("C18", tier, seed, "exploration", RULE)
    if replay:
        import json
        cases = [tuple(json.load(open(replay))["replay"]["case"])]
    else:
        nl = int((100 if tier == "quick" else 3000) * scale)
        npc = int((450 if tier == "quick" else 20000) * scale)
        nsel = int((240 if tier == "quick" else 8000) * scale)
        cases = [("lib", seed, i, tier) for i in range(nl)] + [("proc", seed, i, tier) for i in range(npc)] + [("sel", seed, i, tier) for i in range(nsel)]
    results = list(par.run_cases(dispatch, cases, jobs))
    par.absorb(run, results)
    n = sum(r.get("n", 0) for _c, r in results)
    run.evaluations = n
    run.nontrivial = set(range(n))
    run.assumptions += ["patterns come from a grammar whose meaning is unambiguous in POSIX and in the manual (literals, *, ?, [a-c], [!x], backslash escapes); exotic bracket forms are outside the bound",
                        "empty directories left by filtering are not judged (the manual speaks of files); links follow the file rules"]
    return run.finish(min_eval=100, min_nontrivial=100)
