"""C17 Parity split over several files behaves as one parity."""
import os
import random
import shutil
import subprocess

from .. import arr as A
from .. import content as cnt
from .. import evidence, par, parity as P, scen

RULE = ("twin driver: array A (one parity file per level) and array B (2..8 files per level, per-file size limits from "
        "--test-parity-limit, which are not block aligned and are hit mid-growth) receive the same trees and the same history "
        "(B's data dirs are cp -a copies of A's after every step, alphabetical scan order on both so allocation is identical). After "
        "every sync: B's recorded split sizes (independent content parser) must be block aligned, the concatenation of B's split "
        "files cut at the recorded sizes must be byte-identical to A's parity up to the used size, only the last used split may "
        "change size, the C06 parity oracle must hold on B; then growth and shrinkage across split boundaries, loss of one split "
        "file + fix (compared with the harness snapshot), and removal of unused trailing splits from the configuration. distinct = "
        "(configuration, history).")


def _unmatched(res):
    from .. import findings
    return len([v for v in res["violations"] if findings.match("C17", v[0]) is None])


def mirror(a, b):
    for d in a.disks:
        shutil.rmtree(b.ddir(d))
        subprocess.check_call(["cp", "-a", a.ddir(d), b.ddir(d)])


def run_case(case):
    seed, idx, tier = case
    rng = random.Random("c17-%d-%d" % (seed, idx))
    res = dict(key=None, violations=[], counters={}, nontrivial=False)
    nlev = rng.choice([1, 1, 2, 3])
    nd = rng.randint(1, 4)
    bsk = rng.choice([1, 1, 2, 4])
    hs = rng.choice([16, 16, 8])
    nsp = [rng.randint(2, 8) for _ in range(nlev)]
    limit = rng.choice([3000, 5000, 7777, 12000, 20000, 40000]) * bsk
    base = dict(nd=nd, nlev=nlev, blocksize_k=bsk, hashsize=hs, ncontent=1, content_on_data=False)
    a, fs = scen.make(rng, dict(base), "c17a")
    b = A.Array(A.scratch_root("c17b"), splits=nsp, **base)
    V = res["violations"]
    hist = []
    common = ["--test-force-order-alpha"]
    bargs = common + ["--test-parity-limit", str(limit)]
    prev_sizes = None
    tainted = False
    try:
        A.populate(fs, rng, nfiles=rng.randint(6, 14), hostile=0.1, maxblocks=8)
        steps = 6 if tier == "quick" else 12
        for step in range(steps):
            if step > 0:
                k = rng.random()
                if k < 0.45:
                    # growth across boundaries
                    for _ in range(rng.randint(1, 4)):
                        scen.mutate(fs, rng, 1, hostile=0.1, ops=["create", "append"], maxblocks=16)
                    hist.append("grow")
                elif k < 0.8:
                    # shrinkage
                    fl = fs.files()
                    for (d, s) in rng.sample(fl, min(len(fl), rng.randint(1, max(1, len(fl) // 2)))):
                        if (d, s) in fs.files() and not fs.links_of(d, s):
                            fs.remove(d, s)
                    hist.append("shrink")
                else:
                    scen.mutate(fs, rng, rng.randint(2, 6), hostile=0.1, maxblocks=8)
                    hist.append("mixed")
            mirror(a, b)
            ra = a.cmd("sync", "-E", "-Z", *common)
            rb = b.cmd("sync", "-E", "-Z", *bargs)
            rep = {"case": list(case), "cfg": base, "splits": nsp, "limit": limit, "history": list(hist), "step": step}
            label = "step %d (%s), %s splits limit %d" % (step, hist[-1] if hist else "initial", nsp, limit)
            for s_ in ra.san + rb.san:
                V.append(("sanitizer:" + A.san_key(s_), s_[:2000], rep))
            if ra.rc != 0:
                raise scen.CaseError("single-file twin sync failed: %s" % ra.err[-200:])
            if rb.rc != 0:
                if b"Insufficient parity space" in rb.err or b"outofparity" in rb.err:
                    hist.append("outofparity")
                    res["counters"]["outofparity"] = res["counters"].get("outofparity", 0) + 1
                    break
                V.append(("split-sync-fails", "%s: sync rc=%s %s" % (label, rb.rc, rb.err[-300:].decode("latin-1")), rep))
                break
            ca = a.load_content()
            cb = b.load_content()
            res["counters"]["syncs"] = res["counters"].get("syncs", 0) + 1
            if ca.blockmax != cb.blockmax:
                V.append(("twin-allocation-differs", "%s: blockmax %d vs %d (harness assumption: same allocation)" % (label, ca.blockmax, cb.blockmax), rep))
                break
            used = cb.blockmax * cb.blocksize
            usedpos = {pos for pos, ents in cb.stripe_map().items() if any(e[1] == "file" for e in ents)}
            usedpos_a = {pos for pos, ents in ca.stripe_map().items() if any(e[1] == "file" for e in ents)}
            if usedpos != usedpos_a:
                V.append(("twin-allocation-differs", "%s: used stripes differ between the twins (harness assumption: same allocation)" % label, rep))
                break
            sizes = {}
            for p in cb.parities:
                l = p["level"]
                ss = [s["size"] for s in p["splits"]]
                if p.get("legacy"):
                    # format 2 (one file per level, hash size 16) records no size: the file size is the size
                    ss = [os.path.getsize(b.ppaths(l)[0])]
                sizes[l] = ss
                for si, sz in enumerate(ss):
                    if sz % cb.blocksize != 0:
                        V.append(("split-size-not-block-aligned", "%s: level %d split %d recorded size %d (block %d): a stripe straddles two files" % (label, l, si, sz, cb.blocksize), rep))
                if sum(ss) < used:
                    V.append(("split-sizes-smaller-than-used", "%s: level %d recorded %s, used %d" % (label, l, ss, used), rep))
                # concatenation vs single file
                cat = b""
                for si, sz in enumerate(ss):
                    pth = b.ppaths(l)[si] if si < len(b.ppaths(l)) else None
                    data = open(pth, "rb").read() if pth and os.path.exists(pth) else b""
                    if len(data) < sz:
                        V.append(("split-file-shorter-than-recorded", "%s: level %d split %d file has %d bytes, recorded %d" % (label, l, si, len(data), sz), rep))
                    cat += data[:sz]
                single = open(a.ppaths(l)[0], "rb").read()
                # stripes that hold no file block keep whatever parity they had (unspecified): compare used stripes only
                bsz = cb.blocksize
                for pos in sorted(usedpos):
                    x = cat[pos * bsz:(pos + 1) * bsz]
                    y = single[pos * bsz:(pos + 1) * bsz]
                    if x != y or len(x) != bsz:
                        V.append(("split-parity-differs-from-single-file", "%s: level %d stripe %d differs (split sizes %s)" % (label, l, pos, ss), rep))
                        break
                res["counters"]["bytes_compared"] = res["counters"].get("bytes_compared", 0) + len(usedpos) * bsz
                res["counters"]["splits_used_max"] = max(res["counters"].get("splits_used_max", 0), sum(1 for x in ss if x > 0))
            # only the last used split may change size
            if prev_sizes is not None:
                for l, ss in sizes.items():
                    ps = prev_sizes.get(l)
                    if not ps:
                        continue
                    last_used_prev = max([i for i, x in enumerate(ps) if x > 0], default=0)
                    for i in range(min(len(ss), len(ps))):
                        if i < last_used_prev and ss[i] != ps[i] and ss[i] != 0 and sum(ss) >= sum(ps):
                            V.append(("non-last-split-changed-size", "%s: level %d split %d %d -> %d while split %d was already in use (%s -> %s)" %
                                      (label, l, i, ps[i], ss[i], last_used_prev, ps, ss), rep))
            prev_sizes = sizes
            # C06 oracle on the split array, with the model of the twin
            pp, st = P.check_parity(b, fs, cb)
            res["counters"]["stripes_oracle"] = res["counters"].get("stripes_oracle", 0) + st["stripes"]
            for pr in pp[:2]:
                V.append(("split-parity-oracle-mismatch", "%s: stripe %d level %d: %s" % (label, pr["pos"], pr["level"], pr["why"]), rep))
            # loss of one split file (or one data disk) + fix
            if rng.random() < 0.5 and cb.blockmax > 0:
                state = fs.clone_entries()
                l = rng.randrange(nlev)
                usedsplits = [i for i, x in enumerate(sizes[l]) if x > 0]
                what = rng.choice(["split", "split", "disk"])
                if what == "split" and usedsplits:
                    os.unlink(b.ppaths(l)[rng.choice(usedsplits)])
                else:
                    scen.wipe_disk(b, rng.choice(b.disks))
                # the room available when the lost split is recreated need not be what it was when the split filled up
                # (a larger or no limit = more free space on that disk now): the recorded sizes must still rule
                fargs = list(bargs)
                if rng.random() < 0.5 and "--test-parity-limit" in fargs:
                    i_ = fargs.index("--test-parity-limit")
                    if rng.random() < 0.3:
                        del fargs[i_:i_ + 2]
                    else:
                        fargs[i_ + 1] = str(int(fargs[i_ + 1]) * rng.choice([2, 3, 10]) + rng.choice([0, 1, 511]))
                    res["counters"]["fix_with_other_limit"] = res["counters"].get("fix_with_other_limit", 0) + 1
                rf = b.cmd("fix", *fargs)
                if rf.rc != 0:
                    V.append(("split-fix-fails", "%s: after losing a %s, fix rc=%s %s" % (label, what, rf.rc, rf.err[-250:].decode("latin-1")), rep))
                else:
                    fsb_probs = []
                    # verify B's tree against the model (paths of B)
                    save = fs.arr
                    fs.arr = b
                    try:
                        fsb_probs = scen.verify_tree(b, fs, state, allow_extra=True)
                    finally:
                        fs.arr = save
                    if fsb_probs:
                        V.append(("split-fix-wrong-result", "%s: %s" % (label, evidence.jsonable(fsb_probs[:3])), rep))
                    rc = b.cmd("check", *bargs)
                    if rc.rc != 0:
                        # diagnosis: are all complaints read errors on stripes that hold no file block?
                        errs = [t for t in rc.tags if t[0] in (b"error", b"parity_error", b"unrecoverable")]
                        unused_only = bool(errs) and all(t[0] == b"parity_error" and t[-1].startswith(b" Read error") and int(t[1]) not in usedpos for t in errs)
                        key = "split-check-fails-after-fix" + ("/read-error-on-unused-stripes-of-recreated-split" if unused_only else "")
                        V.append((key, "%s: check rc=%s errors=%s" % (label, rc.rc, evidence.jsonable(errs[:4])), rep))
                        tainted = True
                    cb2 = b.load_content()
                    # a split that is not the last used one is full: the file holds exactly the recorded size, also after fix
                    for p2 in cb2.parities:
                        if p2.get("legacy"):
                            continue
                        ss2 = [s_["size"] for s_ in p2["splits"]]
                        lastused2 = max([i_ for i_, x_ in enumerate(ss2) if x_ > 0], default=0)
                        for si2, sz2 in enumerate(ss2[:lastused2]):
                            pth2 = b.ppaths(p2["level"])[si2] if si2 < len(b.ppaths(p2["level"])) else None
                            if pth2 and os.path.exists(pth2) and os.path.getsize(pth2) != sz2:
                                V.append(("non-last-split-file-size-differs-from-recorded-after-fix", "%s: level %d split %d file has %d bytes, recorded %d (sizes %s)" %
                                          (label, p2["level"], si2, os.path.getsize(pth2), sz2, ss2), rep))
                                break
                    pp, st = P.check_parity(b, fs, cb2)
                    for pr in pp[:2]:
                        V.append(("split-parity-oracle-mismatch-after-fix", "%s: stripe %d level %d: %s" % (label, pr["pos"], pr["level"], pr["why"]), rep))
                res["counters"]["fix_runs"] = res["counters"].get("fix_runs", 0) + 1
            # removal of unused trailing splits from the configuration
            if rng.random() < 0.3 and not tainted:
                newsp = []
                for l in range(nlev):
                    ss = sizes[l]
                    lastused = max([i for i, x in enumerate(ss) if x > 0], default=0)
                    newsp.append(max(1, min(len(ss), lastused + 1 + rng.randint(0, 1))))
                if newsp != b.splits:
                    oldsp = list(b.splits)
                    b.splits = newsp
                    b.write_conf()
                    rs = b.cmd("status", *bargs)
                    rc = b.cmd("check", *bargs)
                    if rs.rc != 0 or rc.rc != 0:
                        V.append(("dropping-unused-trailing-splits-breaks-array", "%s: splits %s -> %s: status rc=%s check rc=%s %s" %
                                  (label, oldsp, newsp, rs.rc, rc.rc, (rs.err + rc.err)[-250:].decode("latin-1")), rep))
                    nsp = newsp
                    hist.append(("drop-trailing", newsp))
                    res["counters"]["trailing_drops"] = res["counters"].get("trailing_drops", 0) + 1
                    prev_sizes = None
            if _unmatched(res) >= 3:
                break
        res["nontrivial"] = res["counters"].get("bytes_compared", 0) > 0
        res["key"] = "%s|%s|%d|%s" % (sorted(base.items()), nsp, limit, hist)
        res["sample"] = {"cfg": base, "splits": nsp, "limit": limit, "history": evidence.jsonable(hist[:8])}
        return res
    finally:
        a.cleanup()
        b.cleanup()


def main(tier, seed, replay, jobs, scale):
    run = evidence.Run("C17", tier, seed, "exploration", RULE)
    if replay:
        import json
        cases = [tuple(json.load(open(replay))["replay"]["case"])]
    else:
        n = int((360 if tier == "quick" else 12000) * scale)
        cases = [(seed, i, tier) for i in range(n)]
    par.absorb(run, par.run_cases(run_case, cases, jobs))
    run.assumptions += ["the twin arrays allocate identically (same trees, alphabetical scan order); a difference is reported as a harness problem",
                        "per-split limits come from --test-parity-limit (deterministic, unaligned); ENOSPC from a real file system is not used"]
    if run.counters.get("splits_used_max", 0) < 2:
        run.inconc("no run used more than one split")
    return run.finish(min_eval=max(1, len(cases) // 2), min_nontrivial=min(10, len(cases)))
