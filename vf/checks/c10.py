"""C10 Saving and reloading the array state is lossless."""
import os
import random

from .. import arr as A
from .. import content as cnt
from .. import evidence, par, scen
from ..content import BLK, CHG, REP

RULE = ("(a) reached states: random histories (syncs incl. kill-after-sync and partial, scrub after silent damage -> bad marks, rehash "
        "in progress, disk removal holes, links, empty dirs, arbitrary-byte names, all hash sizes, split and single parity) and after "
        "each: test-rewrite under a frozen clock must reproduce every content copy byte for byte; list -l and status -G -l dumps "
        "must be identical whichever copy is listed first in the configuration; the dumps must equal the independent decode of the "
        "file (files, sizes, time-stamps, inodes, links, per-stripe time/bad/rehash/used/unsynced). (b) constructed states: the "
        "encoder emits valid content files with deleted runs, bad/rehash/just-synced mixes, holes, long and short runs and values "
        "at varint boundaries (positions and counts 2^7, 2^14, 2^21, sizes to 2^40 with 16 MiB blocks, inode 2^64-1, mtime 2^62, "
        "nsec 0/invalid/999999999, arbitrary-byte names); test-rewrite must reproduce them byte for byte and list/status must print "
        "exactly those values. distinct = distinct content files checked.")


def _unmatched(res):
    from .. import findings
    return len([v for v in res["violations"] if findings.match("C10", v[0]) is None])


def list_dump(a, variant="plain", conf=None):
    r = a.cmd("list", variant=variant, conf=conf)
    files = sorted((t[1], t[2], int(t[3]), int(t[4]), int(t[5]) if t[5].lstrip(b"-").isdigit() else t[5], int(t[6])) for t in r.tag("file") if len(t) >= 7)
    links = sorted((t[0], t[1], t[2], t[3]) for t in r.tags if t[0].startswith(b"link_") and len(t) >= 4)
    return r, files, links


def status_dump(a, variant="plain", conf=None):
    r = a.cmd("status", "-G", variant=variant, conf=conf)
    blocks = {}
    for t in r.tag("block"):
        if len(t) >= 7:
            blocks[int(t[1])] = (int(t[2]), t[3] == b"used", t[4] == b"unsynced", t[5] == b"bad", t[6] == b"rehash")
    for t in r.tag("block_noinfo"):
        if len(t) >= 4:
            blocks[int(t[1])] = (None, t[2] == b"used", t[3] == b"unsynced", False, False)
    summ = {}
    for k in ("has_unsynced", "has_unscrubbed", "has_rehash", "has_bad"):
        v = r.summary(k)
        if v:
            summ[k] = int(v[0])
    return r, blocks, summ


def expect_from_content(c):
    files = sorted((c.disk_name(f.disk), f.sub, f.size, f.mtime_sec if f.mtime_sec < 2**63 else f.mtime_sec - 2**64,
                    f.mtime_nsec if f.mtime_nsec >= 0 else 0xFFFFFFFF, f.inode if f.inode < 2**63 else f.inode - 2**64) for f in c.files)
    links = sorted((b"link_" + l["kind"].encode(), c.disk_name(l["disk"]), l["sub"], l["linkto"]) for l in c.links)
    sm = c.stripe_map()
    blocks = {}
    unsynced = bad = rehash = unscrubbed = 0
    for pos in range(c.blockmax):
        ents = sm.get(pos, [])
        used = any(e[1] == "file" for e in ents)
        invalid = any(e[4] in (CHG, REP, cnt.DELETED) for e in ents)
        inf = c.info[pos] if pos < len(c.info) else None
        if used and invalid:
            unsynced += 1
        if inf is not None:
            blocks[pos] = (inf[0] & ~7, used, invalid, inf[1], inf[2])
            bad += inf[1]
            rehash += inf[2]
            unscrubbed += inf[3]
        else:
            blocks[pos] = (None, used, invalid, False, False)
    return files, links, blocks, dict(has_unsynced=unsynced, has_unscrubbed=unscrubbed, has_rehash=rehash, has_bad=bad)


def check_state(a, res, label, rep, T, variant="plain", rewrite=True):
    """All C10 observations on the current on-disk state."""
    V = res["violations"]
    cps = a.cpaths()
    raw = [open(p, "rb").read() for p in cps if os.path.exists(p)]
    if not raw:
        return None
    if len(set(raw)) != 1:
        V.append(("copies-differ", "%s: content copies are not byte-identical" % label, rep))
        return None
    try:
        c = cnt.decode(raw[0])
    except cnt.DecodeError as ex:
        V.append(("tool-written-content-undecodable", "%s: %s" % (label, ex), rep))
        return None
    if cnt.encode(c) != raw[0]:
        res["counters"]["codec_roundtrip_mismatch"] = res["counters"].get("codec_roundtrip_mismatch", 0) + 1
    res["counters"]["states_checked"] = res["counters"].get("states_checked", 0) + 1
    efiles, elinks, eblocks, esumm = expect_from_content(c)
    dumps = []
    for first in range(len(cps)):
        if first > 0 and (len(cps) == 1):
            break
        conf = a.conf + ".perm%d" % first
        save = a.conf
        a.conf = conf
        a.write_conf(first_content=first)
        a.conf = save
        r1, files, links = list_dump(a, variant, conf)
        r2, blocks, summ = status_dump(a, variant, conf)
        for s_ in r1.san + r2.san:
            V.append(("sanitizer:" + A.san_key(s_), "%s: %s" % (label, s_[:2000]), rep))
        if r1.rc != 0:
            V.append(("list-fails-on-tool-written-content", "%s: list rc=%s %s" % (label, r1.rc, r1.err[-200:].decode("latin-1")), rep))
            return c
        dumps.append((files, links, blocks, summ))
        if first == 0:
            if files != efiles:
                d = [x for x in files if x not in efiles][:2] + [x for x in efiles if x not in files][:2]
                V.append(("list-differs-from-decoded-content:files", "%s: %s" % (label, evidence.jsonable(d)), rep))
            if links != elinks:
                V.append(("list-differs-from-decoded-content:links", "%s: %s vs %s" % (label, evidence.jsonable(links[:2]), evidence.jsonable(elinks[:2])), rep))
            if blocks != eblocks:
                d = [(k, blocks.get(k), eblocks.get(k)) for k in sorted(set(blocks) | set(eblocks)) if blocks.get(k) != eblocks.get(k)][:3]
                V.append(("status-differs-from-decoded-content:blocks", "%s: (pos, printed, decoded) %s" % (label, d), rep))
            if summ != esumm:
                V.append(("status-differs-from-decoded-content:summary", "%s: printed %s decoded %s" % (label, summ, esumm), rep))
    for i in range(1, len(dumps)):
        if dumps[i] != dumps[0]:
            V.append(("state-depends-on-which-copy-is-read", "%s: dump with copy %d first differs" % (label, i), rep))
    if rewrite:
        r = a.cmd("test-rewrite", variant=variant, shim={"time": T, "log": False})
        for s_ in r.san:
            V.append(("sanitizer:" + A.san_key(s_), "%s: %s" % (label, s_[:2000]), rep))
        if r.rc != 0:
            V.append(("rewrite-fails", "%s: test-rewrite rc=%s %s" % (label, r.rc, r.err[-200:].decode("latin-1")), rep))
            return c
        now = [open(p, "rb").read() for p in cps]
        if any(x != raw[0] for x in now):
            i = next((k for k in range(min(len(now[0]), len(raw[0]))) if now[0][k] != raw[0][k]), None)
            V.append(("rewrite-changes-bytes", "%s: test-rewrite changed the content file (%d -> %d bytes, first difference at %s)" %
                      (label, len(raw[0]), len(now[0]), i), rep))
    return c


def conservation(a, fs, prev, cur, res, label, rep):
    """What the saved state says the parity contains must not silently shrink: a block that the previous saved state
    recorded as contained in the parity (synced block of a file, or deleted block kept with its hash) may vanish from
    the next saved state only if its stripe was really synced again, i.e. every block now recorded there is synced and
    the parity equals the generator applied to exactly those blocks. Otherwise the state that was in memory (pending
    deletions, their hashes, the disk mapping) was lost in the save."""
    from .. import parity as P
    V = res["violations"]
    pm = prev.stripe_map()
    cm = cur.stripe_map()
    had = set()
    for pos, ents in pm.items():
        for (di, kind, f, i, st, h) in ents:
            if st == BLK or kind == "deleted":
                had.add((prev.maps[di]["name"], pos))
    have = set()
    for pos, ents in cm.items():
        for (di, kind, f, i, st, h) in ents:
            have.add((cur.maps[di]["name"], pos))
    # the hash kept with a deleted block is the hash of what the parity still holds there: across a save it is the hash the
    # block had before (as synced block or as deleted block), or - after a sync reloaded the state - the "unknown" hash
    prevh = {}
    for pos, ents in pm.items():
        for (di, kind, f, i, st, h) in ents:
            if st == BLK or kind == "deleted":
                prevh[(prev.maps[di]["name"], pos)] = h
    nchk = 0
    for pos, ents in cm.items():
        for (di, kind, f, i, st, h) in ents:
            if kind != "deleted":
                continue
            k_ = (cur.maps[di]["name"], pos)
            if k_ in prevh:
                nchk += 1
                if h != prevh[k_] and h != bytes(len(h)):
                    V.append(("deleted-block-hash-changed-in-save", "%s: deleted block of %s at stripe %d carried hash %s, the saved state now says %s "
                              "(neither the same nor 'unknown')" % (label, evidence.jsonable(k_[0]), pos, prevh[k_].hex(), h.hex()), rep))
                    return
    res["counters"]["deleted_hashes_compared"] = res["counters"].get("deleted_hashes_compared", 0) + nchk
    dropped = sorted(had - have, key=lambda x: x[1])
    if not dropped:
        return
    res["counters"]["dropped_records_judged"] = res["counters"].get("dropped_records_judged", 0) + len(dropped)
    poss = sorted({p_ for (_n, p_) in dropped if cm.get(p_)})
    bad = [p_ for p_ in poss if any(e[4] != BLK for e in cm[p_])]
    if bad:
        who = [x for x in dropped if x[1] == bad[0]]
        V.append(("record-of-parity-contents-lost/stripe-still-unsynced", "%s: %s recorded in the previous state as contained in the parity of "
                  "stripe %d vanished from the saved state although that stripe still holds unsynced blocks" % (label, evidence.jsonable(who), bad[0]), rep))
        return
    probs, st = P.check_parity(a, fs, cur, positions=set(poss))
    if probs:
        pr = probs[0]
        who = [x for x in dropped if x[1] == pr["pos"]]
        V.append(("record-of-parity-contents-lost/parity-still-holds-the-dropped-block", "%s: %s vanished from the saved state but stripe %d was not "
                  "synced again (level %d: %s): pending deletions were lost in the save" % (label, evidence.jsonable(who), pr["pos"], pr["level"], pr["why"]), rep))


def run_reached(case):
    _k, seed, idx, tier = case
    rng = random.Random("c10-%d-%d" % (seed, idx))
    variant = "asan" if idx % 4 == 3 else "plain"
    res = dict(key="reached-%d" % idx, violations=[], counters={}, nontrivial=False)
    cfg = scen.gen_config(rng, max_nd=5)
    a, fs = scen.make(rng, cfg, "c10")
    T = 1_700_000_000
    hist = []
    try:
        A.populate(fs, rng, nfiles=rng.randint(4, 16), hostile=0.3)
        nsteps = 8 if tier == "quick" else 14
        prev = None
        heal = []
        # a third of the cases: a whole disk is emptied at some step and the next sync is partial / killed, so that a
        # disk with nothing but pending deletions has to survive a save
        empty_at = rng.randint(2, nsteps - 2) if (idx % 3 == 1 and len(a.disks) >= 2) else None
        force_partial = False
        force_full = False
        blocks_on = lambda d: sum((len(fs.entries[d][s_][1]) + a.bs - 1) // a.bs for (_d, s_) in fs.files(d))
        single = None
        if empty_at is not None and rng.random() < 0.6:
            # the disk to be emptied holds one file only (one extent), reaching further into the parity than any other disk
            single = rng.choice(a.disks)
            fs.clear_disk(single)
            nb = max(blocks_on(d) for d in a.disks if d != single) + rng.randint(-1, 4)
            fs.write(single, b"single-big-file", A.gen_bytes(rng, max(1, nb) * a.bs - rng.choice([0, 1, 17]), "rand"))
            force_full = True
        # another third: a multi-block file is deleted together with a file of another disk that covers only INNER positions
        # of its range, and the next sync is partial: the run of deleted blocks is split in the middle by the save
        split_at = rng.randint(2, nsteps - 2) if (idx % 3 == 2 and len(a.disks) >= 2) else None
        for step in range(nsteps):
            T += rng.randint(100, 100000)
            k = rng.random()
            if step == split_at:
                try:
                    c_ = a.load_content()
                    n2i_ = {nm.encode(): i for i, nm in enumerate(a.disk_names)}
                    big = sorted([f for f in c_.files if len(f.blocks) >= 3 and all(b[1] == BLK for b in f.blocks)], key=lambda f_: -len(f_.blocks))
                    done_ = False
                    for fa in big[:4]:
                        lo, hi = fa.blocks[0][0], fa.blocks[-1][0]
                        inner = [g for g in c_.files if g.disk != fa.disk and g.blocks and g.blocks[0][0] > lo and g.blocks[-1][0] < hi]
                        da = n2i_[c_.disk_name(fa.disk)]
                        if inner and fa.sub in fs.entries[da] and not fs.links_of(da, fa.sub):
                            g = rng.choice(inner)
                            dg = n2i_[c_.disk_name(g.disk)]
                            if g.sub in fs.entries[dg] and not fs.links_of(dg, g.sub):
                                fs.remove(da, fa.sub)
                                fs.remove(dg, g.sub)
                                done_ = True
                                break
                    if done_:
                        hist.append("delete-file-and-inner-neighbour")
                        res["counters"]["middle_split_setups"] = 1
                        force_partial = True
                        continue
                except (FileNotFoundError, cnt.DecodeError):
                    pass
            if force_full:
                k = 0.5
            if step == empty_at:
                d = max(a.disks, key=blocks_on) if rng.random() < 0.7 else rng.choice(a.disks)
                if single is not None:
                    d = single
                fs.clear_disk(d)
                hist.append("empty-disk %d" % d)
                force_partial = True
                continue
            if k < 0.3 and not force_partial:
                scen.mutate(fs, rng, rng.randint(1, 5), hostile=0.3)
                hist.append("fs")
                continue
            if force_partial:
                force_partial = False
                args = list(rng.choice([["--test-kill-after-sync"], ["-B", str(rng.randint(1, 3))], ["-S", str(rng.randint(0, 2)), "-B", str(rng.randint(1, 3))]]))
                cmd = "sync"
                args = ["-E", "-Z"] + args
            elif force_full:
                force_full = False
                cmd, args = "sync", ["-E", "-Z"]
            elif k < 0.65:
                args = list(rng.choice([[], [], ["--test-kill-after-sync"], ["-S", str(rng.randint(0, 4)), "-B", str(rng.randint(1, 6))],
                                        ["-R"], ["-h"], ["--test-force-autosave-at", "3"], ["-N"]]))
                cmd = "sync"
                args = ["-E", "-Z"] + args
            elif k < 0.78:
                # silent damage then scrub -> bad marks; the damage itself is undone right after the scrub (only the marks are
                # wanted: damaged bytes left on disk would later be taken for the user's data by a re-sync of that file)
                heal = []
                try:
                    c = a.load_content()
                    from .. import dmg
                    tg = [(f, i) for f in c.files for i, b in enumerate(f.blocks) if b[1] == BLK]
                    for (f, i) in rng.sample(tg, min(len(tg), rng.randint(0, 3))):
                        pth = os.path.join(os.fsencode(a.ddir(a.disk_names.index(c.disk_name(f.disk).decode()))), f.sub)
                        try:
                            st_ = os.lstat(pth)
                            with open(pth, "rb") as fh:
                                heal.append((pth, fh.read(), st_.st_atime_ns, st_.st_mtime_ns))
                        except OSError:
                            continue
                        dmg.damage_file_block(a, c, f, i, rng, "byte")
                except (FileNotFoundError, cnt.DecodeError):
                    pass
                cmd, args = "scrub", ["-p", rng.choice(["full", "new", "40", "bad"]), "-o", "0"]
            elif k < 0.86:
                cmd, args = "rehash", [rng.choice(["--test-force-spooky2", "--test-force-murmur3"])]
            elif k < 0.92:
                cmd, args = "scrub", ["--test-force-scrub-even"]
            elif k < 0.96:
                cmd, args = "touch", []
            else:
                cmd, args = "fix", ["-e"]
            r = a.cmd(cmd, *args, variant=variant, shim={"time": T, "log": False})
            for (pth, data_, at_, mt_) in (reversed(heal) if cmd == "scrub" else []):
                try:
                    with open(pth, "wb") as fh:
                        fh.write(data_)
                    os.utime(pth, ns=(at_, mt_))
                except OSError:
                    pass
            heal = []
            if cmd == "touch":
                fs.adopt_touch()
            hist.append((cmd, args, r.rc))
            rep = {"case": list(case), "cfg": cfg, "history": hist[-10:]}
            lab = "after %s %s (rc %s)" % (cmd, " ".join(args), r.rc)
            cur = check_state(a, res, lab, rep, T + 50, variant)
            if prev is not None and cur is not None:
                conservation(a, fs, prev, cur, res, lab, rep)
            if cur is not None:
                prev = cur
            if _unmatched(res) >= 3:
                break
        res["nontrivial"] = res["counters"].get("states_checked", 0) > 0
        res["nstates"] = res["counters"].get("states_checked", 0)
        res["key"] = "%s|%s" % (sorted(cfg.items()), hist)
        res["sample"] = {"cfg": cfg, "history": hist[:10]}
        return res
    finally:
        a.cleanup()


# ------------------------------------------------------------------ constructed states

BOUND = [0, 1, 127, 128, 129, 16383, 16384, 16385, 2097151, 2097152]


def construct(rng, idx):
    """A valid Content object in the writer's normal form + the Array configuration that accepts it."""
    hashsize = rng.choice([16, 16, 8, 4, 2])
    nd = rng.randint(1, 4)
    nlev = rng.randint(1, 3)
    splits = [rng.randint(1, 3) if rng.random() < 0.3 else 1 for _ in range(nlev)]
    big = (idx % 7 == 3)
    bsk = 16384 if big else rng.choice([1, 2, 4, 256])
    bs = bsk * 1024
    c = cnt.Content()
    c.blocksize = bs
    c.hashsize = hashsize
    c.version = 3 if (hashsize != 16 or any(s > 1 for s in splits)) else 2
    c.hash = rng.choice(["murmur3", "spooky2"])
    c.hashseed = rng.getrandbits(128).to_bytes(16, "little")
    migration = rng.random() < 0.3
    if migration:
        c.prevhash = "spooky2" if c.hash == "murmur3" else "murmur3"
        c.prevhashseed = rng.getrandbits(128).to_bytes(16, "little")
    # disk positions with holes
    poss = sorted(rng.sample(range(0, 8), nd))
    names = ["d%d" % (i + 1) for i in range(nd)]
    order = list(range(nd))
    for i in range(nd):
        c.maps.append(dict(name=names[i].encode(), pos=poss[i], total=rng.choice(BOUND), free=rng.choice(BOUND), uuid=b"", legacy=False))
    # allocation: per disk a set of file runs at chosen positions
    target_max = rng.choice([5, 40, 130, 200, 16400] if not big else [5, 70000])
    if idx % 50 == 5:
        target_max = 2097160
    used_by = {}
    blockmax = 0
    def H():
        h = rng.getrandbits(8 * hashsize).to_bytes(hashsize, "little")
        if hashsize == 16 and (h == bytes(16) or h == b"\xff" * 16):
            h = b"\x01" + h[1:]
        return h
    for d in range(nd):
        pos = 0
        nfiles = rng.randint(0, 5)
        if d == 0 and nfiles == 0:
            nfiles = 1
        for fi in range(nfiles):
            nb = rng.choice([0, 1, 1, 2, 3, 7, 128, 129]) if not big else rng.choice([1, 2, 65536])
            if target_max > 100000 and fi == 0 and d == 0:
                nb = 3
            nb = min(nb, 70000)
            size = 0 if nb == 0 else (nb - 1) * bs + rng.choice([1, bs - 1, bs, rng.randint(1, bs)])
            name = A.gen_name(rng, 0.4, 12)
            if rng.random() < 0.3:
                name = A.gen_name(rng, 0.4, 5) + b"/" + name
            if any(f.sub == name for f in c.files if f.disk == d):
                continue
            f = cnt.File(d, name, size, rng.choice([0, 1, 2**31 - 1, 2**31, 2**32 + 5, 1_500_000_000, 2**62]),
                         rng.choice([0, cnt.NSEC_INVALID, 999_999_999, rng.randint(1, 999_999_998)]),
                         rng.choice([0, 1, 2**32 - 1, 2**32, 2**63 - 1, 2**64 - 1, rng.getrandbits(40)]))
            i = 0
            while i < nb:
                run = min(nb - i, rng.choice([1, 1, 2, 5, 127, 128, 129, 70000]))
                gap = rng.choice([0, 0, 0, 1, 3, 127])
                if target_max > 100000 and d == 0 and fi == 0 and i == 2:
                    gap = target_max - pos - 1
                pos += gap
                st = rng.choice([BLK, BLK, BLK, CHG, REP])
                for k in range(run):
                    if st == CHG and hashsize == 16 and rng.random() < 0.3:
                        h = rng.choice([bytes(16), b"\xff" * 16])
                    else:
                        h = H()
                    f.blocks.append((pos, st, h))
                    used_by[(d, pos)] = st
                    pos += 1
                i += run
            if f.blocks:
                blockmax = max(blockmax, f.blocks[-1][0] + 1)
            c.files.append(f)
        for li in range(rng.randint(0, 2)):
            c.links.append(dict(disk=d, sub=A.gen_name(rng, 0.4), linkto=A.gen_name(rng, 0.4, 20), kind=rng.choice(["symlink", "hardlink"])))
        for di in range(rng.randint(0, 2)):
            c.dirs.append(dict(disk=d, sub=A.gen_name(rng, 0.4)))
    c.blockmax = blockmax
    # deleted runs only at positions required by some file of another disk and free on this disk
    required = {p for (d, p) in used_by}
    for d in range(nd):
        dm = {}
        free_req = sorted(p for p in required if (d, p) not in used_by)
        for p in free_req:
            if rng.random() < 0.25:
                dm[p] = H() if rng.random() < 0.8 or hashsize != 16 else bytes(16)
        has_entries = any(f.disk == d for f in c.files) or any(l["disk"] == d for l in c.links) or any(x["disk"] == d for x in c.dirs)
        if dm or has_entries:
            c.deleted[d] = dm
            c.holes_seen.append(d)
    # drop unmapped (empty) disks from the map, as the writer does
    keep = [d for d in range(nd) if d in c.holes_seen]
    remap = {d: i for i, d in enumerate(keep)}
    c.maps = [c.maps[d] for d in keep]
    for f in c.files:
        f.disk = remap[f.disk]
    for l in c.links:
        l["disk"] = remap[l["disk"]]
    for x in c.dirs:
        x["disk"] = remap[x["disk"]]
    c.deleted = {remap[d]: v for d, v in c.deleted.items()}
    c.holes_seen = [remap[d] for d in c.holes_seen]
    # info: required where a BLK block lives; optional where a file block lives; none elsewhere
    now = 1_700_000_000
    times = [now - rng.randint(0, 10**7) for _ in range(4)] + [now]
    c.info = []
    blk_pos = {p for (d, p), st in used_by.items() if st == BLK}
    file_pos = {p for (d, p) in used_by}
    oldest = None
    for p in range(blockmax):
        if p in blk_pos or (p in file_pos and rng.random() < 0.7):
            t = rng.choice(times) & ~7
            rehash = migration and rng.random() < 0.4
            v = (t, rng.random() < 0.2, rehash, rng.random() < 0.4)
            c.info.append(v)
            oldest = t if oldest is None else min(oldest, t)
        else:
            c.info.append(None)
    c.info_oldest = oldest or 0
    if migration and not any(v and v[2] for v in c.info):
        c.prevhash = None
        c.prevhashseed = b""
    for l in range(nlev):
        sp = []
        for s in range(splits[l]):
            sp.append(dict(path=None, uuid=b"", size=0))
        c.parities.append(dict(level=l, total=rng.choice(BOUND), free=rng.choice(BOUND), legacy=False, splits=sp))
    acfg = dict(nd=len(keep), nlev=nlev, blocksize_k=bsk, hashsize=hashsize, ncontent=rng.randint(1, 3), content_on_data=False,
                splits=splits, disk_names=[names[d] for d in keep])
    return c, acfg, now


def run_constructed(case):
    _k, seed, idx, tier = case
    rng = random.Random("c10c-%d-%d" % (seed, idx))
    res = dict(key="constructed-%d" % idx, violations=[], counters={}, nontrivial=False)
    c, acfg, now = construct(rng, idx)
    if not c.maps:
        res["inconclusive"] = "empty construction"
        return res
    root = A.scratch_root("c10c")
    a = A.Array(root, **acfg)
    try:
        # recorded split paths and sizes: every split holds whole blocks, the last one the rest
        bs = c.blocksize
        for l, p in enumerate(c.parities):
            paths = a.ppaths(l)
            remaining = c.blockmax * bs
            for s, sp in enumerate(p["splits"]):
                sp["path"] = os.fsencode(paths[s])
                if s == len(p["splits"]) - 1:
                    sp["size"] = remaining
                else:
                    part = (rng.randint(0, remaining // bs)) * bs if remaining else 0
                    sp["size"] = part
                    remaining -= part
        data = cnt.encode(c)
        for p in a.cpaths():
            with open(p, "wb") as f:
                f.write(data)
        rep = {"case": list(case), "cfg": acfg, "content_len": len(data), "blockmax": c.blockmax, "files": len(c.files)}
        label = "constructed content (%d bytes, blockmax %d, %d files, hash %d, v%d)" % (len(data), c.blockmax, len(c.files), c.hashsize, c.version)
        # the tool must accept it ...
        r = a.cmd("status", shim={"time": now + 100, "log": False})
        if r.rc != 0:
            res["violations"].append(("valid-constructed-content-refused", "%s: status rc=%s %s" % (label, r.rc, r.err[-300:].decode("latin-1")), rep))
            return res
        # ... print exactly those values and reproduce it byte for byte
        check_state(a, res, label, rep, now + 100, "plain")
        res["nontrivial"] = True
        res["nstates"] = 1
        res["sample"] = {"cfg": acfg, "content_len": len(data), "blockmax": c.blockmax, "files": len(c.files),
                         "example_file": evidence.jsonable((c.files[0].sub, c.files[0].size, c.files[0].mtime_sec, c.files[0].mtime_nsec, c.files[0].inode)) if c.files else None}
        return res
    finally:
        a.cleanup()


def dispatch(case):
    return run_reached(case) if case[0] == "reached" else run_constructed(case)


def main(tier, seed, replay, jobs, scale):
    run = evidence.Run("C10", tier, seed, "exploration", RULE)
    if replay:
        import json
        cases = [tuple(json.load(open(replay))["replay"]["case"])]
    else:
        nr = int((40 if tier == "quick" else 500) * scale)
        nc = int((200 if tier == "quick" else 5000) * scale)
        cases = [("reached", seed, i, tier) for i in range(nr)] + [("constructed", seed, i, tier) for i in range(nc)]
    results = list(par.run_cases(dispatch, cases, jobs))
    par.absorb(run, results)
    n = sum(r.get("nstates", 0) for _c, r in results)
    run.evaluations = n
    run.nontrivial = set(range(n))
    run.assumptions += ["positions are kept <= 2^21+8 (the in-memory info array is indexed by position; 2^32-1 would need 16 GiB)",
                        "only files already in the writer's normal form are required to round-trip byte-exactly",
                        "free-space counters are whatever was recorded; test-rewrite does not refresh them"]
    if run.counters.get("codec_roundtrip_mismatch", 0):
        run.inconc("content codec round trip mismatch (harness self-check)")
    return run.finish(min_eval=20, min_nontrivial=20)
