"""C15 Scrub checks what its plan says and keeps honest books."""
import math
import os
import random

from .. import arr as A
from .. import content as cnt
from .. import dmg, evidence, par, scen, shimlog
from ..content import BLK
from .c01 import Template, build_synced_array

RULE = ("a distribution of per-stripe last-check times is laid out with the shim clock (sync and scrub batches at chosen fake times, new "
        "files synced later, bad marks from real silent errors, optionally unsynced file changes), then one scrub with a plan "
        "(full / new / bad / percentage with -o age / default) runs at a chosen time. The verified set is observed twice - from the parity "
        "read offsets in the shim event log and from the decoded info words before/after - and judged against the documented rules: "
        "bad stripes always verified; full = every used stripe; new = never-scrubbed ones; percentage = at most ceil(blockmax*p/100) "
        "non-bad stripes, none younger than the age limit, no verified stripe younger than an unverified eligible one, quota not left "
        "unused while eligible stripes remain. Books: time refreshed and marks cleared only on verified-correct stripes, bad set only "
        "with a silent error, never for differences caused by files changed since the last sync, parity and data untouched. Bounded "
        "progress: with the clock advanced 11 days per run every stripe is verified within 13 default scrubs. distinct = (layout, plan).")

DAY = 86400


def _unmatched(res):
    from .. import findings
    return len([v for v in res["violations"] if findings.match("C15", v[0]) is None])


def info_of(a):
    c = a.load_content()
    return c, {i: v for i, v in enumerate(c.info) if v is not None}


def verified_from_events(a, c, events):
    """Stripes whose parity was read by scrub (level 0 file offsets)."""
    from .. import parity as P
    views = P.parity_views(a, c)
    out = set()
    paths0 = [os.fsencode(p) for p in a.ppaths(0)]
    for e in shimlog.parse(events):
        if e.kind == "E" and e.cls == "parity" and e.op == "read" and e.ret > 0 and e.path in paths0:
            # map (split, offset) back to a position
            si = paths0.index(e.path)
            base = sum(views[0].sizes[:si])
            out.add((base + e.off) // c.blocksize)
    return out


def compute_wrong(a, fs, c):
    """Stripes that are wrong right now, judged without the tool: a synced stripe whose parity differs from the generator
    applied to the recorded versions (version store), or a block of a file that still carries its recorded size and
    time-stamp but whose bytes on disk differ from the recorded version (silent corruption)."""
    from .. import parity as P
    wrong = set()
    probs, _st = P.check_parity(a, fs, c)
    for pr in probs:
        wrong.add(pr["pos"])
    name2idx = {nm.encode(): i for i, nm in enumerate(a.disk_names)}
    for f in c.files:
        d = name2idx[c.disk_name(f.disk)]
        p = fs.path(d, f.sub)
        try:
            st = os.lstat(p)
        except OSError:
            continue
        if st.st_size != f.size or st.st_mtime_ns != f.mtime_sec * 10**9 + max(f.mtime_nsec, 0):
            continue
        model = fs.lookup(d, f.sub, f.size, f.mtime_sec, f.mtime_nsec if f.mtime_nsec >= 0 else 0)
        if model is None:
            continue
        with open(p, "rb") as fh:
            disk = fh.read()
        for i, (pos, stt, h) in enumerate(f.blocks):
            if disk[i * c.blocksize:(i + 1) * c.blocksize] != model[i * c.blocksize:(i + 1) * c.blocksize]:
                wrong.add(pos)
    return wrong


def recorded_on_disk(a, c, f):
    """the file on disk still carries the recorded size and time-stamp (only then a change of its bytes is a SILENT one)"""
    n2i = {nm.encode(): i for i, nm in enumerate(a.disk_names)}
    try:
        st = os.lstat(os.path.join(os.fsencode(a.ddir(n2i[c.disk_name(f.disk)])), f.sub))
    except OSError:
        return False
    return st.st_size == f.size and st.st_mtime_ns == f.mtime_sec * 10**9 + max(f.mtime_nsec, 0)


def run_case(case):
    seed, idx, tier = case
    rng = random.Random("c15-%d-%d" % (seed, idx))
    variant = "asan" if idx % 5 == 4 else "plain"
    res = dict(key=None, violations=[], counters={}, nontrivial=False)
    cfg = scen.gen_config(rng, max_nd=4, max_lev=2, force=dict(hashsize=16))
    a, fs = scen.make(rng, cfg, "c15")
    V = res["violations"]
    T = 1_600_000_000
    hist = []
    tpl = None
    truly_bad = set()     # stripes the harness itself made wrong (silent data damage, parity damage): never "verified correct"
    try:
        A.populate(fs, rng, nfiles=rng.randint(8, 20), hostile=0.05, maxblocks=6)
        r = a.cmd("sync", variant=variant, shim={"time": T, "log": False})
        if r.rc != 0:
            raise scen.CaseError("sync failed")
        # lay out times: a few scrub batches, more files, bad marks
        for k in range(rng.randint(1, 4)):
            T += rng.randint(1, 30) * DAY + rng.randint(1000, 50000)
            kind = rng.random()
            if kind < 0.55:
                p = rng.choice([10, 25, 40, 60])
                r = a.cmd("scrub", "-p", str(p), "-o", "0", variant=variant, shim={"time": T, "log": False})
                hist.append(("scrub", p, T))
            elif kind < 0.8:
                scen.mutate(fs, rng, rng.randint(2, 5), hostile=0.05, ops=["create", "create", "append"], maxblocks=6)
                r = a.cmd("sync", "-E", "-Z", variant=variant, shim={"time": T, "log": False})
                hist.append(("sync-more", T, r.rc))
            else:
                c = a.load_content()
                tg = [(f, i) for f in c.files if recorded_on_disk(a, c, f) for i, b in enumerate(f.blocks) if b[1] == BLK]
                for (f, i) in rng.sample(tg, min(len(tg), rng.randint(1, 3))):
                    if dmg.damage_file_block(a, c, f, i, rng, "byte") == "ok":
                        truly_bad.add(f.blocks[i][0])
                r = a.cmd("scrub", "-p", "full", variant=variant, shim={"time": T, "log": False})
                hist.append(("damage+scrub-full", T, r.rc))
        # sometimes EVERY used stripe is bad at once (one disk silently corrupted over its whole length), repaired or not
        if rng.random() < 0.12:
            c = a.load_content()
            T += rng.randint(1, 20) * DAY
            for pos, ents in sorted(c.stripe_map().items()):
                fe = [e for e in ents if e[1] == "file" and e[4] == BLK and recorded_on_disk(a, c, e[2])]
                if fe:
                    e = rng.choice(fe)
                    dmg.damage_file_block(a, c, e[2], e[3], rng, "byte")
            r = a.cmd("scrub", "-p", "full", variant=variant, shim={"time": T, "log": False})
            hist.append(("damage-every-stripe+scrub-full", T, r.rc))
            if rng.random() < 0.6:
                r = a.cmd("fix", "-e", variant=variant, shim={"time": T + 100, "log": False})
                hist.append(("fix -e", r.rc))
        # optionally files changed since the last sync (unsynced differences)
        unsynced_files = []
        touched_pos = set()
        npar_dmg = 0
        if rng.random() < 0.4:
            fl = [x for x in fs.files() if len(fs.entries[x[0]][x[1]][1]) > 0]
            c = a.load_content()
            posof = {(c.disk_name(f.disk), f.sub): [b[0] for b in f.blocks] for f in c.files}
            recof = {(c.disk_name(f.disk), f.sub): f for f in c.files}
            for (d, s) in rng.sample(fl, min(len(fl), rng.randint(1, 3))):
                k_ = rng.random()
                if fs.links_of(d, s):
                    continue
                if not os.path.lexists(fs.path(d, s)):
                    # renamed to .unrecoverable by the 'fix -e' of the layout: nothing left to change
                    continue
                if k_ < 0.25:
                    fs.write(d, s, A.gen_bytes(rng, len(fs.entries[d][s][1]), "rand"), keep_inode=True)
                elif k_ < 0.45:
                    # near-miss stamp: new bytes of the same size under a time-stamp that differs from the recorded one in
                    # one component only (sub-second part zeroed as a one-second-precision restore tool leaves it, sub-second
                    # part off by one, second off by one): still a file changed since the last sync, never a silent error
                    f_ = recof.get((a.disk_names[d].encode(), s))
                    if f_ is None or f_.mtime_nsec < 0 or not recorded_on_disk(a, c, f_):
                        continue
                    try:
                        with open(fs.path(d, s), "rb") as fh_:
                            if fh_.read() != fs.entries[d][s][1]:
                                continue
                    except OSError:
                        continue
                    cand_ = [(f_.mtime_sec, (f_.mtime_nsec + 1) % 10**9), (f_.mtime_sec + 1, f_.mtime_nsec), (f_.mtime_sec - 1, f_.mtime_nsec)]
                    if f_.mtime_nsec != 0:
                        cand_ += [(f_.mtime_sec, 0)] * 3
                    sec_, nsec_ = rng.choice(cand_)
                    old_ = fs.entries[d][s][1]
                    new_ = A.gen_bytes(rng, len(old_), "rand")
                    if new_ == old_:
                        continue
                    fs.write(d, s, new_, mtime_ns=sec_ * 10**9 + nsec_, keep_inode=True)
                    res["counters"]["near_miss_stamp_rewrites"] = res["counters"].get("near_miss_stamp_rewrites", 0) + 1
                elif k_ < 0.75:
                    # same content, new time-stamp: every hash still matches but the blocks count as unsynced
                    # (a file the harness silently damaged before is left alone: re-timing it would turn the damage into a
                    # change made by the user, which a later sync legitimately adopts)
                    try:
                        with open(fs.path(d, s), "rb") as fh_:
                            if fh_.read() != fs.entries[d][s][1]:
                                continue
                    except OSError:
                        continue
                    fs.set_mtime(d, s)
                    touched_pos.update(posof.get((a.disk_names[d].encode(), s), []))
                else:
                    fs.remove(d, s)
                unsynced_files.append((a.disk_names[d].encode(), s))
            hist.append(("unsynced-changes", len(unsynced_files)))
            if rng.random() < 0.5:
                # an incomplete sync records the pending state (deleted blocks over stale parity, new blocks without parity)
                T += rng.randint(1, 5) * DAY
                r = a.cmd("sync", "-E", "-Z", *rng.choice([["-B", "1"], ["-S", "0", "-B", "1"], ["-S", "1", "-B", "1"], ["-B", "2"]]),
                          variant=variant, shim={"time": T, "log": False})
                hist.append(("partial-sync", r.rc))
        # optionally damaged parity blocks (preferably in stripes that also hold a touched file)
        if rng.random() < 0.35:
            c = a.load_content()
            usedpos = sorted(c.stripe_map())
            for _ in range(rng.randint(1, 3)):
                cand = sorted(touched_pos) if (touched_pos and rng.random() < 0.7) else usedpos
                if not cand:
                    break
                pos = rng.choice(cand)
                if dmg.damage_parity_block(a, c, rng.randrange(a.nlev), pos, rng, rng.choice(["byte", "block"])) == "ok":
                    truly_bad.add(pos)
                    npar_dmg += 1
            hist.append(("parity-damage", npar_dmg))
        truly_bad = compute_wrong(a, fs, a.load_content())
        res["counters"]["layouts_with_wrong_stripes"] = 1 if truly_bad else 0
        tpl = Template(a)
        plans = [["-p", "full"], ["-p", "new"], ["-p", "bad"], [], ["-p", str(rng.choice([0, 1, 5, 13, 33, 50, 77, 100])), "-o", str(rng.choice([0, 0, 3, 10, 40]))],
                 ["-p", str(rng.randint(1, 99))]]
        if tier == "quick":
            plans = rng.sample(plans, 4)
        for plan in plans:
            tpl.restore()
            Tn = T + rng.choice([0, 1, 5, 12, 45]) * DAY + rng.randint(100, 5000)
            c0, inf0 = info_of(a)
            par0 = a.parity_bytes()
            data0 = {d: A.snapshot(a.ddir(d)) for d in a.disks}
            r = a.cmd("scrub", *plan, variant=variant, shim={"time": Tn})
            res["counters"]["scrubs"] = res["counters"].get("scrubs", 0) + 1
            rep = {"case": list(case), "cfg": cfg, "layout": hist, "plan": plan, "now": Tn}
            label = "scrub %s at T+%dd" % (" ".join(plan) or "(default)", (Tn - T) // DAY)
            for s_ in r.san:
                V.append(("sanitizer:" + A.san_key(s_), s_[:2000], rep))
            c1, inf1 = info_of(a)
            verified = verified_from_events(a, c0, r.events)
            # books view: stripes whose info changed
            changed = {p for p in inf0 if inf1.get(p) != inf0[p]}
            bad0 = {p for p, v in inf0.items() if v[1]}
            used = set(inf0)
            blockmax = c0.blockmax
            now8 = Tn & ~7
            # ---- selection
            if not bad0 <= verified:
                V.append(("bad-stripe-not-verified", "%s: bad stripes %s not read" % (label, sorted(bad0 - verified)[:5]), rep))
            nonbad = verified - bad0
            if verified - used:
                V.append(("unused-stripe-verified", "%s: %s" % (label, sorted(verified - used)[:5]), rep))
            if plan[:2] == ["-p", "full"]:
                if verified != used:
                    V.append(("full-plan-misses-stripes", "%s: not verified %s" % (label, sorted(used - verified)[:5]), rep))
            elif plan[:2] == ["-p", "new"]:
                want = {p for p, v in inf0.items() if v[3]} | bad0
                if verified != want:
                    V.append(("new-plan-wrong-set", "%s: verified-but-scrubbed-before %s, new-but-skipped %s" % (label, sorted(verified - want)[:5], sorted(want - verified)[:5]), rep))
            elif plan[:2] == ["-p", "bad"]:
                if verified != bad0:
                    V.append(("bad-plan-wrong-set", "%s: verified %s, bad %s" % (label, sorted(verified)[:5], sorted(bad0)[:5]), rep))
            else:
                if plan:
                    p_ = int(plan[1])
                    quota = math.ceil(blockmax * p_ / 100)
                    age = int(plan[3]) if len(plan) > 3 else 10
                else:
                    quota = math.ceil(blockmax / 12)
                    age = 10
                limit_time = Tn - age * DAY
                if len(nonbad) > quota:
                    V.append(("percentage-plan-over-quota", "%s: %d non-bad stripes verified, quota ceil(%d*p/100)=%d" % (label, len(nonbad), blockmax, quota), rep))
                young = [p for p in nonbad if inf0[p][0] > limit_time + 8]
                if young:
                    V.append(("percentage-plan-verifies-too-young", "%s: stripes %s are younger than the age limit" % (label, young[:5]), rep))
                eligible_left = [p for p in used - verified if inf0[p][0] <= limit_time - 8]
                if nonbad and eligible_left:
                    newest_verified = max(inf0[p][0] for p in nonbad)
                    older_left = [p for p in eligible_left if inf0[p][0] < newest_verified - 8]
                    if older_left:
                        V.append(("percentage-plan-not-oldest-first", "%s: verified a stripe of time %d while older eligible stripes %s were skipped" %
                                  (label, newest_verified, older_left[:5]), rep))
                # quota left unused while eligible stripes remain (bad ones do count against the quota in the tool's books)
                if len(verified) < quota and eligible_left and len(nonbad) < quota - len(bad0):
                    V.append(("percentage-plan-quota-unused", "%s: %d verified (quota %d) but %d eligible stripes left" % (label, len(verified), quota, len(eligible_left)), rep))
            # ---- books
            errpos = {int(t[1]) for t in r.tags if t[0] in (b"error", b"parity_error") and len(t) > 2 and t[1].isdigit()}
            silent = set()
            unsynced_err = set()
            for t in r.tags:
                if t[0] == b"error" and len(t) >= 5 and t[1].isdigit():
                    if (t[2], t[3]) in unsynced_files:
                        unsynced_err.add(int(t[1]))
                    else:
                        silent.add(int(t[1]))
                elif t[0] == b"parity_error" and len(t) >= 3 and t[1].isdigit():
                    silent.add(int(t[1]))
            # stripes holding a block whose parity is not valid yet (left by a sync that skipped the stripe): errors there
            # are "generic" by design, never bad marks
            unsynced_pos = {p for p, ents in c0.stripe_map().items() if any(e[4] != BLK for e in ents)}
            # ... or a block of a file that is missing or whose size/time-stamp differ from the recorded ones (changed since the
            # last sync that recorded it - also when an earlier sync of the layout failed on it)
            n2i = {nm.encode(): i for i, nm in enumerate(a.disk_names)}
            for f in c0.files:
                try:
                    st_ = os.lstat(fs.path(n2i[c0.disk_name(f.disk)], f.sub))
                    same = st_.st_size == f.size and st_.st_mtime_ns == f.mtime_sec * 10**9 + max(f.mtime_nsec, 0)
                except OSError:
                    same = False
                if not same:
                    unsynced_pos.update(b[0] for b in f.blocks)
            for p in changed:
                if p not in verified:
                    V.append(("books-changed-for-unverified-stripe", "%s: stripe %d info %s -> %s but it was not read" % (label, p, inf0[p], inf1.get(p)), rep))
                    break
            for p in verified & used:
                v0, v1 = inf0[p], inf1.get(p)
                if v1 is None:
                    continue
                if p not in errpos:
                    # verified correct: time refreshed, marks cleared
                    if abs(v1[0] - now8) > 8 or v1[1] or v1[3]:
                        V.append(("books-not-refreshed-for-verified-stripe", "%s: stripe %d verified without error, info %s -> %s (now %d)" % (label, p, v0, v1, now8), rep))
                        break
                else:
                    if p in silent and not (p in unsynced_err) and not v1[1] and p not in unsynced_pos:
                        V.append(("silent-error-not-marked-bad", "%s: stripe %d had an error but is not bad: %s" % (label, p, v1), rep))
                        break
                    if abs(v1[0] - now8) <= 8 and v1[0] != v0[0] and not v0[1] and p in silent and p not in unsynced_pos:
                        V.append(("time-refreshed-on-failed-stripe", "%s: stripe %d failed verification but its time was refreshed" % (label, p), rep))
                        break
            # independent of what the tool reports: a stripe the harness made wrong is not "verified correct", so scrub
            # must not clear its marks and refresh its time (it either marks it bad or leaves the record as it was)
            for p in sorted(verified & used & truly_bad):
                v0, v1 = inf0[p], inf1.get(p)
                if v1 is None:
                    continue
                res["counters"]["wrong_stripes_verified"] = res["counters"].get("wrong_stripes_verified", 0) + 1
                if not v1[1] and (v1 != v0):
                    V.append(("books-refreshed-for-stripe-that-is-wrong", "%s: stripe %d holds damage made by the harness (silent data or parity "
                              "corruption) but scrub recorded it as verified: info %s -> %s" % (label, p, v0, v1), rep))
                    break
                if not v1[1] and p not in errpos:
                    V.append(("wrong-stripe-verified-without-report", "%s: stripe %d holds damage made by the harness but scrub reported nothing for it" % (label, p), rep))
                    break
            newbad = {p for p, v in inf1.items() if v[1]} - bad0
            # a stripe that holds blocks without valid parity (deleted, new, replaced: recorded by an incomplete sync) differs
            # from its parity by design; unless the harness itself damaged a synced block there it must not become bad
            nb_unsynced = sorted(p for p in newbad if p in unsynced_pos and p not in truly_bad)
            if nb_unsynced:
                V.append(("unsynced-stripe-marked-bad", "%s: stripes %s only hold pending (deleted / new / replaced) blocks next to intact synced ones and were marked bad" %
                          (label, nb_unsynced[:5]), rep))
            if newbad - errpos:
                V.append(("bad-mark-without-error", "%s: stripes %s marked bad without any reported error" % (label, sorted(newbad - errpos)[:5]), rep))
            if unsynced_files and (newbad & unsynced_err) and not (newbad & unsynced_err & silent):
                V.append(("unsynced-difference-marked-bad", "%s: stripes %s only differ because files changed since the last sync" % (label, sorted(newbad & unsynced_err)[:5]), rep))
            if a.parity_bytes() != par0:
                V.append(("scrub-modified-parity", label, rep))
            own = scen.content_copy_subs(a)
            for d in a.disks:
                df = [x for x in A.snap_diff(data0[d], A.snapshot(a.ddir(d))) if x[0] not in own[d]]
                if df:
                    V.append(("scrub-modified-data", "%s: %s" % (label, evidence.jsonable(df[:2])), rep))
            res["counters"]["stripes_verified"] = res["counters"].get("stripes_verified", 0) + len(verified)
            if _unmatched(res) >= 3:
                break
        # ---- bounded progress: default scrubs 11 days apart cover everything within 13 runs
        damaged_layout = any(h[0] in ("damage+scrub-full", "damage-every-stripe+scrub-full") for h in hist) or bool(truly_bad)
        if idx % 2 == 0 and not unsynced_files and not damaged_layout and _unmatched(res) == 0:
            tpl.restore()
            c0, inf0 = info_of(a)
            seen = set()
            Tn = T + 200
            runs = 0
            while runs < 13 and seen != set(inf0):
                Tn += 11 * DAY
                r = a.cmd("scrub", variant=variant, shim={"time": Tn})
                seen |= verified_from_events(a, c0, r.events) & set(inf0)
                runs += 1
            res["counters"]["coverage_runs"] = res["counters"].get("coverage_runs", 0) + runs
            if seen != set(inf0):
                V.append(("default-scrubs-do-not-cover-array", "after 13 default scrubs 11 days apart %d of %d stripes were never verified: %s" %
                          (len(set(inf0) - seen), len(inf0), sorted(set(inf0) - seen)[:5]), {"case": list(case), "cfg": cfg}))
        res["nontrivial"] = res["counters"].get("stripes_verified", 0) > 0
        res["n"] = res["counters"].get("scrubs", 0)
        res["key"] = "%s|%s" % (sorted((k, str(v)) for k, v in cfg.items()), hist)
        res["sample"] = {"cfg": cfg, "layout": hist, "plans": plans[:3]}
        return res
    finally:
        if tpl:
            tpl.cleanup()
        a.cleanup()


def main(tier, seed, replay, jobs, scale):
    run = evidence.Run("C15", tier, seed, "exploration", RULE)
    if replay:
        import json
        cases = [tuple(json.load(open(replay))["replay"]["case"])]
    else:
        n = int((450 if tier == "quick" else 15000) * scale)
        cases = [(seed, i, tier) for i in range(n)]
    results = list(par.run_cases(run_case, cases, jobs))
    par.absorb(run, results)
    n = sum(r.get("n", 0) for _c, r in results)
    run.evaluations = n
    run.nontrivial = set(range(n))
    run.assumptions += ["times are compared at 8 s granularity; ties at the limit time may be broken either way",
                        "eventual coverage is restated as bounded progress (13 default scrubs, clock advanced 11 days per run)",
                        "the verified set is taken from the parity read offsets of level 0 in the shim event log"]
    return run.finish(min_eval=20, min_nontrivial=20)
