"""C13 Results do not depend on thread scheduling or I/O cache depth."""
import copy
import hashlib
import os
import random

from .. import arr as A
from .. import content as cnt
from .. import dmg, evidence, par, scen, shimlog
from .c01 import Template, build_synced_array

RULE = ("four monitors. (1) differential: from one restored image, sync and scrub run with --test-io-cache 1 (single thread, the "
        "reference) and 3,4,8,32,128 x schedule perturbation seeds (hook yields/sleeps between critical sections) under a frozen "
        "clock; parity bytes, decoded array state and the sorted set of error:/parity_error: tags must equal the reference; "
        "scenarios include pending adds/updates/deletes, silent data and parity errors (on-the-fly repair path), skipped and "
        "unwritten stripes. (2) ThreadSanitizer (and ASan) on the same workloads and on a hostile scan workload (files replaced on "
        "one disk while another disk copy-detects them) with perturbation, reports de-duplicated, any report is a violation. (3) "
        "trace checker over the io.c hook events (one atomic sequence number): per slot, reader and writer ownership intervals never "
        "overlap the caller's, TAKE positions strictly increase and equal the reference set, every (reader, position) is read once and "
        "every non-skipped (writer, position) written once, no worker event after JOINED. (4) termination: watchdog, SIGINT at sampled "
        "parity writes. distinct = distinct (actor, kind, slot) event sequences observed + (scenario, depth, seed) runs.")

DEPTHS_Q = [3, 4, 8, 32, 128]


def _unmatched(res):
    from .. import findings
    return len([v for v in res["violations"] if findings.match("C13", v[0]) is None])


# ------------------------------------------------------------------ trace checker

def parse_trace(path):
    evs = []
    try:
        data = open(path, "rb").read().decode("latin-1")
    except FileNotFoundError:
        return evs
    for line in data.splitlines():
        f = line.split()
        if len(f) != 6:
            continue
        try:
            evs.append((int(f[0]), f[1], f[2], int(f[3]), int(f[4]), int(f[5])))
        except ValueError:
            continue
    evs.sort()
    return evs


def check_trace(evs):
    """Returns (problems, stats). Handles several START..JOINED segments in one file."""
    probs = []
    stats = dict(events=len(evs), handovers=0, segments=0, takes=[], sig=None)
    rd = {}      # (reader, slot) -> state
    wr = {}      # (writer, slot) -> state
    reads = {}   # (reader, pos) -> count
    writes = {}
    last_take = None
    joined = False
    nread = nwrite = None
    sig = hashlib.sha256()
    mono = False
    for (seq, actor, kind, slot, pos, extra) in evs:
        sig.update(("%s %s %d|" % (actor, kind, slot)).encode())
        if kind == "START":
            stats["segments"] += 1
            rd, wr, reads, writes = {}, {}, {}, {}
            last_take = None
            joined = False
            continue
        if kind == "JOINED":
            joined = True
            continue
        if kind == "STOP":
            continue
        if joined and actor[0] in "RW":
            probs.append("worker event %s %s after JOINED (seq %d)" % (actor, kind, seq))
        if actor[0] == "C":
            if kind == "TAKE":
                if extra == 1:
                    mono = True
                if last_take is not None and pos <= last_take:
                    probs.append("TAKE position %d after %d (not increasing)" % (pos, last_take))
                last_take = pos
                stats["takes"].append(pos)
                # no writer may still own this slot
                for (w, s), st in wr.items():
                    if s == slot and st in ("sched", "writing", "skip"):
                        probs.append("caller takes slot %d (pos %d) while writer %s is %s in it (seq %d)" % (slot, pos, w, st, seq))
                stats["handovers"] += 1
            elif kind == "SCHEDR":
                for (r, s), st in list(rd.items()):
                    if s == slot:
                        if st in ("reading",):
                            probs.append("slot %d rescheduled while reader %s is reading it (seq %d)" % (slot, r, seq))
                        rd[(r, s)] = "sched"
                rd[("*", slot)] = "sched"
                stats["handovers"] += 1
            elif kind == "GOT":
                r = "R%d" % extra
                st = rd.get((r, slot))
                if st != "done":
                    probs.append("caller got slot %d from reader %s in state %s (pos %d, seq %d)" % (slot, r, st, pos, seq))
                rd[(r, slot)] = "caller"
                stats["handovers"] += 1
            elif kind in ("SCHEDW", "SCHEDWS"):
                for (w, s), st in list(wr.items()):
                    if s == slot and st in ("writing", "sched", "skip"):
                        probs.append("slot %d scheduled for writing while writer %s is %s in it (seq %d)" % (slot, w, st, seq))
                wr[("*", slot)] = ("sched" if kind == "SCHEDW" else "skip", pos)
                for (w, s) in list(wr):
                    if s == slot and w != "*":
                        wr[(w, s)] = "sched" if kind == "SCHEDW" else "skip"
                stats["handovers"] += 1
        elif actor[0] == "R":
            if kind == "RB":
                st = rd.get((actor, slot), rd.get(("*", slot), "sched"))
                if st not in ("sched",) and not (st == "sched" or (actor, slot) not in rd):
                    probs.append("reader %s begins slot %d in state %s (pos %d, seq %d)" % (actor, slot, st, pos, seq))
                if st == "caller":
                    probs.append("reader %s begins slot %d while the caller owns it (pos %d, seq %d)" % (actor, slot, pos, seq))
                rd[(actor, slot)] = "reading"
                reads[(actor, pos)] = reads.get((actor, pos), 0) + 1
            elif kind == "RE":
                if rd.get((actor, slot)) != "reading":
                    probs.append("reader %s ends slot %d without begin (seq %d)" % (actor, slot, seq))
                rd[(actor, slot)] = "done"
                stats["handovers"] += 1
        elif actor[0] == "W":
            cur = wr.get((actor, slot))
            if cur is None:
                g = wr.get(("*", slot))
                cur = g[0] if g else None
            if kind == "WB":
                if cur != "sched":
                    probs.append("writer %s begins slot %d in state %s (pos %d, seq %d)" % (actor, slot, cur, pos, seq))
                wr[(actor, slot)] = "writing"
                writes[(actor, pos)] = writes.get((actor, pos), 0) + 1
            elif kind == "WE":
                if cur != "writing":
                    probs.append("writer %s ends slot %d in state %s (seq %d)" % (actor, slot, cur, seq))
                wr[(actor, slot)] = "idle"
                stats["handovers"] += 1
            elif kind == "WSKIP":
                if cur not in ("skip", None, "idle"):
                    probs.append("writer %s skips slot %d in state %s (seq %d)" % (actor, slot, cur, seq))
                wr[(actor, slot)] = "idle"
        for k, n in reads.items():
            if n > 1:
                probs.append("position %d read %d times by %s" % (k[1], n, k[0]))
                reads[k] = 1
        for k, n in writes.items():
            if n > 1:
                probs.append("position %d written %d times by %s" % (k[1], n, k[0]))
                writes[k] = 1
        if len(probs) > 20:
            break
    stats["sig"] = sig.hexdigest()[:16]
    stats["mono"] = mono
    stats["reads"] = len(reads)
    stats["writes"] = len(writes)
    return probs, stats


# ------------------------------------------------------------------ differential

def norm_content(data):
    c = cnt.decode(data)
    c = copy.copy(c)
    c.maps = [dict(m, total=0, free=0) for m in c.maps]
    c.parities = [dict(p, total=0, free=0) for p in c.parities]
    # inode numbers change every time the image is restored with cp -a
    c.files = [cnt.File(f.disk, f.sub, f.size, f.mtime_sec, f.mtime_nsec, 0, f.blocks) for f in c.files]
    return cnt.encode(c)


def err_tags(r):
    out = []
    for t in r.tags:
        if t[0] in (b"error", b"parity_error", b"unrecoverable"):
            # keep position/disk/file/level and the kind of message, drop counters such as "diff bits"
            msg = t[-1].split(b",")[0].split(b". ")[0]  # drop counters and the strerror() suffix
            out.append(tuple(t[:-1]) + (msg,))
    return sorted(out)


def copy_tags(r):
    """(destination disk, destination name) of every scan:copy tag. Which of several identical recorded/assumed copies is named
    as the SOURCE may depend on the scan order without any effect on the state (the inherited hashes are the same), so the
    source is not compared."""
    return sorted((t[4], t[5]) for t in r.tags if t[0] == b"scan" and len(t) >= 6 and t[1] == b"copy")


def copy_sources(r):
    out = {}
    for t in r.tags:
        if t[0] == b"scan" and len(t) >= 6 and t[1] == b"copy":
            out.setdefault((t[4], t[5]), set()).add((t[2], t[3]))
    return out


def scan_tags(r):
    """scan: tags with the source of copies blanked (see copy_tags)"""
    out = []
    for t in r.tags:
        if t[0] != b"scan":
            continue
        t = tuple(t)
        if len(t) >= 6 and t[1] == b"copy":
            t = (t[0], t[1], b"*", b"*") + t[4:]
        out.append(t)
    return sorted(out)


def scan_diff_key(ref, r):
    """The scanner's classification differs between two runs over the same tree. One mechanism is a recorded finding: a new
    file is taken for a copy of a recorded file of another disk only if that disk's scan thread has not yet replaced the
    record because the source itself was updated - diagnosed as: every file that is a copy in one run only has a source
    that the same scan reports as updated."""
    a, b = set(copy_tags(ref)), set(copy_tags(r))
    srcs = copy_sources(ref)
    for k, v in copy_sources(r).items():
        srcs.setdefault(k, set()).update(v)
    upd = {(t[2], t[3]) for x in (ref, r) for t in x.tags if t[0] == b"scan" and len(t) >= 4 and t[1] == b"update"}
    def roots(c_, depth=0):
        # a copy can be a copy of a copy made in the same scan: what matters is the recorded file at the root of the chain
        out = set()
        for s_ in srcs.get(c_, ()):
            if s_ in srcs and depth < 6 and s_ != c_:
                out |= roots(s_, depth + 1)
            else:
                out.add(s_)
        return out
    if (a ^ b) and all(srcs.get(c) and roots(c) <= upd for c in a ^ b):
        return "scan-classification-depends-on-schedule:copy/source-updated-in-the-same-scan"
    return "scan-classification-depends-on-schedule:copy/unexplained"


def build_scenario(rng, kind, variant):
    nlev = rng.choice([1, 2, 3, 6])
    cfg = scen.gen_config(rng, force=dict(nlev=nlev, nd=rng.randint(2, 5), ncontent=2, content_on_data=False), allow_splits=rng.random() < 0.3)
    a, fs, state0, hist, cfg = build_synced_array(rng, "c13", cfg, variant, rounds=0, want_migration=False)
    # enough stripes for the ring to turn several times
    A.populate(fs, rng, nfiles=rng.randint(10, 25), hostile=0.05, maxblocks=6)
    r = a.cmd("sync", "-E", "-Z", variant=variant)
    if r.rc != 0:
        a.cleanup()
        raise scen.CaseError("setup sync failed")
    c = a.load_content()
    if kind in ("errors", "mixed") or (kind == "skip" and rng.random() < 0.7):
        # silent errors in synced data and parity (in the skip scenario they share stripes with files that fail during the sync)
        targets = [(f, i) for f in c.files for i, b in enumerate(f.blocks)]
        # skip scenario: dense silent damage, so that the stripes of the files failing during the sync hold silent errors too
        nsil = rng.randint(2, 6) if kind == "errors" else max(2, int(len(targets) * rng.choice([0.2, 0.4, 0.6])))
        if kind == "mixed" and rng.random() < 0.5:
            nsil = rng.randint(2, 6)
        for (f, i) in rng.sample(targets, min(len(targets), nsil)):
            dmg.damage_file_block(a, c, f, i, rng, rng.choice(["bit", "block"]))
        sm = sorted(c.stripe_map())
        for pos in rng.sample(sm, min(len(sm), rng.randint(1, 4))):
            dmg.damage_parity_block(a, c, rng.randrange(a.nlev), pos, rng, "byte")
    if kind in ("pending", "mixed", "skip"):
        scen.mutate(fs, rng, rng.randint(5, 12), hostile=0.05, maxblocks=6,
                    ops=["create", "create", "overwrite", "append", "truncate", "delete", "rename", "move_disk", "copy"])
    return a, fs, cfg


def run_diff_case(case):
    _k, seed, idx, tier = case
    rng = random.Random("c13-%d-%d" % (seed, idx))
    kind = ["pending", "errors", "mixed", "skip", "skip"][idx % 5]
    res = dict(key="diff-%d" % idx, violations=[], counters={}, nontrivial=False, sigs=[])
    a, fs, cfg = build_scenario(rng, kind, "plain")
    tpl = None
    T = 1_650_000_000
    try:
        tpl = Template(a)
        cmds = [("sync", ["-E", "-Z"]), ("scrub", ["-p", "full"])] if kind in ("errors", "mixed") else [("sync", ["-E", "-Z"])]
        if kind == "skip":
            # files vanish / change between scan and sync (--test-run): their stripes are skipped with an error while other
            # blocks of the same stripes wait for a parity update
            import shlex
            fl = [x for x in fs.files() if len(fs.entries[x[0]][x[1]][1]) > 0]
            acts = []
            for (d, s_) in rng.sample(fl, min(len(fl), rng.randint(2, 5))):
                pth = shlex.quote(os.fsdecode(fs.path(d, s_)))
                acts.append(("rm -f %s" % pth) if rng.random() < 0.6 else ("printf changed-during-sync >> %s" % pth))
            cmds = [("sync", ["-E", "-Z", "--test-run", " ; ".join(acts)])]
            res["counters"]["skip_scenarios"] = 1
        if kind != "errors":
            # scan differential: the classification printed by diff (scan: tags) with the sequential scanner versus the
            # per-disk scan threads under perturbation
            tpl.restore()
            sref = a.cmd("diff", "--test-skip-multi-scan", shim={"time": T, "log": False})
            stags = scan_tags(sref)
            for ps in ([None, 1, 2, 3, 4, 5] if tier == "quick" else [None] + list(range(1, 16))):
                env = {"SNAPRAID_VERIF_SCHED": str(ps * 104729 + idx)} if ps is not None else {}
                r = a.cmd("diff", shim={"time": T, "log": False}, env=env, timeout=25)
                res["counters"]["scan_runs"] = res["counters"].get("scan_runs", 0) + 1
                rep = {"case": list(case), "cfg": cfg, "cmd": ["diff"], "sched_seed": ps, "scenario": kind}
                if r.timeout:
                    res["violations"].append(("hang:diff", "diff sched %s did not end within 25 s" % ps, rep))
                    break
                now_t = scan_tags(r)
                if r.rc != sref.rc:
                    res["violations"].append(("exit-status-depends-on-schedule:diff", "diff sched %s rc=%s, sequential scan rc=%s" % (ps, r.rc, sref.rc), rep))
                if now_t != stags:
                    key = scan_diff_key(sref, r) if copy_tags(r) != copy_tags(sref) else "scan-classification-depends-on-schedule:other"
                    res["violations"].append((key, "diff sched %s: scan tags differ from the sequential scan: only-parallel %s only-sequential %s" %
                                              (ps, evidence.jsonable([x for x in now_t if x not in stags][:3]), evidence.jsonable([x for x in stags if x not in now_t][:3])), rep))
                    break
        for cmd, base in cmds:
            tpl.restore()
            tr = os.path.join(a.root, "trace-ref")
            ref = a.cmd(cmd, *base, "--test-io-cache", "1", shim={"time": T, "log": False}, env={"SNAPRAID_VERIF_TRACE": tr})
            if ref.timeout:
                res["violations"].append(("hang:single-thread:" + cmd, "reference run did not end", {"case": list(case)}))
                continue
            ref_par = a.parity_bytes()
            try:
                ref_cnt = norm_content(open(a.cpaths()[0], "rb").read())
            except Exception as ex:
                raise scen.CaseError("reference content: %s" % ex)
            ref_err = err_tags(ref)
            ref_rc = ref.rc
            ref_copies = copy_tags(ref)
            pr, st = check_trace(parse_trace(tr))
            ref_takes = st["takes"]
            for p_ in pr[:2]:
                res["violations"].append(("trace:" + p_.split(" (")[0][:60], "reference (mono) %s: %s" % (cmd, p_), {"case": list(case)}))
            depths = DEPTHS_Q if tier == "quick" else [3, 4, 5, 8, 16, 32, 64, 128]
            seeds = [None, 1, 2, 3] if tier == "quick" else [None] + list(range(1, 12))
            hung = 0
            for depth in depths:
                if hung >= 2:
                    break
                for ps in seeds:
                    tpl.restore()
                    tr = os.path.join(a.root, "trace-%d-%s" % (depth, ps))
                    env = {"SNAPRAID_VERIF_TRACE": tr}
                    if ps is not None:
                        env["SNAPRAID_VERIF_SCHED"] = str(ps * 7919 + idx)
                    r = a.cmd(cmd, *base, "--test-io-cache", str(depth), shim={"time": T, "log": False}, env=env, timeout=25)
                    rep = {"case": list(case), "cfg": cfg, "cmd": [cmd] + base, "depth": depth, "sched_seed": ps, "scenario": kind}
                    label = "%s io-cache %d sched %s (%s)" % (cmd, depth, ps, kind)
                    res["counters"]["runs"] = res["counters"].get("runs", 0) + 1
                    if r.timeout:
                        # re-run once with a generous watchdog before calling it a hang
                        tpl.restore()
                        r = a.cmd(cmd, *base, "--test-io-cache", str(depth), shim={"time": T, "log": False}, env=env, timeout=90)
                        if r.timeout:
                            res["violations"].append(("hang:" + cmd, label + " (did not end within 25 s, nor within 90 s when re-run; the fault-free single-thread run takes well under 1 s)", rep))
                            hung += 1
                            if hung >= 2:
                                break
                            continue
                    if cmd == "sync" and copy_tags(r) != ref_copies:
                        # the two syncs did not start from the same scan result: report that, and do not attribute the
                        # downstream differences (block states, errors) to the I/O ring
                        res["violations"].append((scan_diff_key(ref, r), "%s: scan:copy tags differ from the reference run: %s" %
                                                  (label, evidence.jsonable(sorted(set(ref_copies) ^ set(copy_tags(r)))[:3])), rep))
                        res["counters"]["runs_with_different_scan_result"] = res["counters"].get("runs_with_different_scan_result", 0) + 1
                        continue
                    if r.rc != ref_rc:
                        res["violations"].append(("exit-status-depends-on-schedule:" + cmd, "%s: rc=%s, single-thread rc=%s" % (label, r.rc, ref_rc), rep))
                    if a.parity_bytes() != ref_par:
                        bad = [os.path.basename(p) for p, d in a.parity_bytes().items() if d != ref_par.get(p)]
                        res["violations"].append(("parity-depends-on-schedule:" + cmd, "%s: %s differ from the single-thread run" % (label, bad), rep))
                    try:
                        now = norm_content(open(a.cpaths()[0], "rb").read())
                    except Exception as ex:
                        now = b"undecodable:" + str(ex).encode()
                    if now != ref_cnt:
                        res["violations"].append(("state-depends-on-schedule:" + cmd, "%s: array state differs from the single-thread run" % label, rep))
                    if err_tags(r) != ref_err:
                        d1 = [x for x in err_tags(r) if x not in ref_err][:2]
                        d2 = [x for x in ref_err if x not in err_tags(r)][:2]
                        res["violations"].append(("errors-depend-on-schedule:" + cmd, "%s: extra=%s missing=%s" % (label, evidence.jsonable(d1), evidence.jsonable(d2)), rep))
                    evs = parse_trace(tr)
                    pr, st = check_trace(evs)
                    for p_ in pr[:2]:
                        res["violations"].append(("trace:" + p_.split(" (")[0][:60], "%s: %s" % (label, p_), rep))
                    if st["takes"] != ref_takes:
                        res["violations"].append(("trace:positions-differ-from-single-thread", "%s: %d positions vs %d; first difference %s" %
                                                  (label, len(st["takes"]), len(ref_takes), next(((x, y) for x, y in zip(st["takes"], ref_takes) if x != y), None)), rep))
                    res["counters"]["trace_events"] = res["counters"].get("trace_events", 0) + st["events"]
                    res["counters"]["handovers"] = res["counters"].get("handovers", 0) + st["handovers"]
                    res["sigs"].append(st["sig"])
                    try:
                        os.unlink(tr)
                    except OSError:
                        pass
                    if _unmatched(res) >= 5:
                        break
                if _unmatched(res) >= 5:
                    break
        res["nontrivial"] = res["counters"].get("trace_events", 0) > 0
        res["sample"] = {"cfg": cfg, "scenario": kind, "runs": res["counters"].get("runs", 0)}
        return res
    finally:
        if tpl:
            tpl.cleanup()
        a.cleanup()


# ------------------------------------------------------------------ sanitizer runs

def hostile_scan_array(rng, tag):
    """Files replaced on one disk while another disk holds a new file with the old name and stamp."""
    cfg = dict(nd=4, nlev=1, hashsize=16, ncontent=1, content_on_data=False)
    a, fs = scen.make(rng, cfg, tag)
    n = 120
    for i in range(n):
        d = i % 4
        fs.write(d, b"dir%d/f%04d" % (i % 7, i), A.gen_bytes(rng, rng.randint(1, 3000)), mtime_ns=fs.clock.next(zero_nsec=(i % 5 == 0)))
    r = a.cmd("sync")
    if r.rc != 0:
        a.cleanup()
        raise scen.CaseError("hostile setup sync failed")
    for i in range(n):
        d = i % 4
        sub = b"dir%d/f%04d" % (i % 7, i)
        e = fs.entries[d][sub]
        other = (d + 1 + (i % 3)) % 4
        k = i % 4
        if k == 0:
            # moved to another disk under the same name, original rewritten with a new stamp
            fs.write(other, sub, e[1], mtime_ns=e[2])
            fs.write(d, sub, A.gen_bytes(rng, len(e[1]) or 1))
        elif k == 1:
            # moved to another disk, original deleted
            fs.write(other, sub, e[1], mtime_ns=e[2])
            fs.remove(d, sub)
        elif k == 2:
            # decoy: same name and stamp elsewhere, other content
            fs.write(other, sub, A.gen_bytes(rng, len(e[1]), "rand"), mtime_ns=e[2])
            fs.set_mtime(d, sub)
    return a, fs, cfg


def run_san_case(case):
    _k, seed, idx, tier = case
    rng = random.Random("c13-san-%d-%d" % (seed, idx))
    variant = ["tsan", "tsan-c", "asan", "tsan"][idx % 4]
    res = dict(key="san-%d" % idx, violations=[], counters={}, nontrivial=False, sigs=[])
    hostile = idx % 2 == 0
    a = None
    tpl = None
    try:
        if hostile:
            a, fs, cfg = hostile_scan_array(rng, "c13s")
            cmds = [("diff", []), ("sync", ["-E", "-Z"]), ("sync", ["-E", "-Z", "--test-force-order-alpha"])]
        else:
            a, fs, cfg = build_scenario(rng, ["pending", "errors", "mixed"][idx % 3], "plain")
            cmds = [("sync", ["-E", "-Z"]), ("scrub", ["-p", "full"]), ("check", [])]
        tpl = Template(a)
        nrep = 3 if tier == "quick" else 12
        seen = set()
        hung_s = 0
        for cmd, base in cmds:
            if hung_s >= 2:
                break
            for rep_i in range(nrep):
                tpl.restore()
                args = list(base)
                if cmd != "diff" and cmd != "check":
                    args += ["--test-io-cache", str(rng.choice([3, 4, 8, 32]))]
                env = {"SNAPRAID_VERIF_SCHED": str(seed * 1000 + idx * 37 + rep_i + 1)}
                r = a.cmd(cmd, *args, variant=variant, env=env, timeout=90)
                res["counters"]["san_runs"] = res["counters"].get("san_runs", 0) + 1
                res["counters"]["san_runs_" + variant] = res["counters"].get("san_runs_" + variant, 0) + 1
                rep = {"case": list(case), "cfg": cfg, "cmd": [cmd] + args, "variant": variant, "hostile": hostile}
                if r.timeout:
                    res["violations"].append(("hang:" + cmd, "%s %s under %s did not end within 90 s" % (cmd, " ".join(args), variant), rep))
                    hung_s += 1
                    if hung_s >= 2:
                        break
                for s in r.san:
                    k = A.san_key(s)
                    if k in seen:
                        continue
                    seen.add(k)
                    res["violations"].append(("sanitizer:" + k, "%s %s under %s (%s workload):\n%s" % (cmd, " ".join(args), variant, "hostile scan" if hostile else "io ring", s[:3500]), rep))
        res["nontrivial"] = True
        res["sample"] = {"variant": variant, "hostile_scan": hostile, "cmds": [c[0] for c in cmds]}
        return res
    finally:
        if tpl:
            tpl.cleanup()
        if a:
            a.cleanup()


# ------------------------------------------------------------------ termination

def run_term_case(case):
    _k, seed, idx, tier = case
    rng = random.Random("c13-term-%d-%d" % (seed, idx))
    res = dict(key="term-%d" % idx, violations=[], counters={}, nontrivial=False, sigs=[])
    a, fs, cfg = build_scenario(rng, "pending", "plain")
    tpl = None
    try:
        tpl = Template(a)
        r = a.cmd("sync", "-E", "-Z", "--test-io-cache", "1", shim={}, timeout=60)
        npw = len([e for e in shimlog.parse(r.events) if e.kind == "E" and e.cls == "parity" and e.op == "write"])
        pts = list(range(1, npw + 1))
        if len(pts) > (10 if tier == "quick" else 60):
            pts = sorted(rng.sample(pts, 10 if tier == "quick" else 60))
        hung_t = 0
        for j in pts:
            if hung_t >= 2:
                break
            for depth in (1, 3, 32):
                tpl.restore()
                tr = os.path.join(a.root, "trace-term")
                r = a.cmd("sync", "-E", "-Z", "--test-io-cache", str(depth), shim={"plan": "parity:write:n=%d:sigint" % j},
                          env={"SNAPRAID_VERIF_TRACE": tr, "SNAPRAID_VERIF_SCHED": str(j + idx)}, timeout=40)
                res["counters"]["sigint_runs"] = res["counters"].get("sigint_runs", 0) + 1
                rep = {"case": list(case), "cfg": cfg, "sigint_at_parity_write": j, "depth": depth}
                if r.timeout:
                    res["violations"].append(("hang:sigint", "sync io-cache %d with SIGINT at parity write %d did not end within 40 s" % (depth, j), rep))
                    hung_t += 1
                    if hung_t >= 2:
                        break
                    continue
                pr, st = check_trace(parse_trace(tr))
                for p_ in pr[:2]:
                    res["violations"].append(("trace:" + p_.split(" (")[0][:60], "SIGINT at parity write %d, io-cache %d: %s" % (j, depth, p_), rep))
                res["sigs"].append(st["sig"])
                try:
                    os.unlink(tr)
                except OSError:
                    pass
        res["nontrivial"] = res["counters"].get("sigint_runs", 0) > 0
        return res
    finally:
        if tpl:
            tpl.cleanup()
        a.cleanup()


def dispatch(case):
    if case[0] == "diff":
        return run_diff_case(case)
    if case[0] == "san":
        return run_san_case(case)
    return run_term_case(case)


def main(tier, seed, replay, jobs, scale):
    run = evidence.Run("C13", tier, seed, "exploration", RULE)
    if replay:
        import json
        cases = [tuple(json.load(open(replay))["replay"]["case"])]
    else:
        nd = int((40 if tier == "quick" else 300) * scale)
        ns = int((24 if tier == "quick" else 300) * scale)
        nt = int((3 if tier == "quick" else 30) * scale)
        cases = [("san", seed, i, tier) for i in range(ns)] + [("diff", seed, i, tier) for i in range(nd)] + [("term", seed, i, tier) for i in range(nt)]
    results = list(par.run_cases(dispatch, cases, jobs))
    par.absorb(run, results)
    sigs = set()
    for _c, r in results:
        sigs.update(r.get("sigs") or [])
    run.extra["distinct_interleavings"] = len(sigs)
    runs = run.counters.get("runs", 0) + run.counters.get("san_runs", 0) + run.counters.get("sigint_runs", 0)
    run.evaluations = runs
    run.nontrivial = set(sigs) | {"san-%d" % i for i in range(run.counters.get("san_runs", 0))}
    run.assumptions += ["schedules are sampled (perturbation + repetition), not enumerated; no model of the ring protocol is explored (model checking is outside this technique family)",
                        "array state is compared after zeroing the free-space counters and inode numbers of the content file (they depend on the host file system / on the cp -a restore of the image)",
                        "termination = ended within a generous watchdog on every run"]
    if run.counters.get("trace_events", 0) == 0:
        run.inconc("no trace event observed (hooks not compiled in?)")
    return run.finish(min_eval=20, min_nontrivial=10)
