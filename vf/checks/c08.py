"""C08 I/O errors never turn into false protection (fault enumeration over I/O calls)."""
import os
import random

from .. import arr as A
from .. import content as cnt
from .. import evidence, par, parity as P, scen, shimlog
from ..content import BLK
from .c01 import Template, build_synced_array
from .c06 import oracle as c06_oracle


def _unmatched(res):
    """violations not covered by an open known finding (those must not stop the exploration early)"""
    from .. import findings
    return len([v for v in res["violations"] if findings.match("C08", v[0]) is None])


RULE = ("per array: a twin run under the shim lists every read of a data file and every read/write of a parity file made by sync "
        "(with pending changes) and by scrub; each such call (file, offset) - all of them for small arrays, first/middle/last and "
        "the last io-cache-depth stripes always - is made to fail once with EIO (and ENOSPC for parity writes), alone or several "
        "per run, with io-cache 1 (single thread), 3, 8 and default. The rule addresses (file, offset range), so it is independent "
        "of thread order; a case counts only if the shim logged the injection. Oracle: failing exit status and a diagnostic; the "
        "stripe concerned is afterwards not recorded as all-synced-and-not-bad in the decoded content file; status -G shows it "
        "(unsynced or bad); fix -e + scrub -p bad (or the next sync) repair it and the C06 parity oracle holds there; every other "
        "stripe ends in the same state as in the fault-free twin and passes the C06 oracle. Scrub additionally with one fault in every touched stripe (full plan; -p 1 -o 0). A fired fault is attributed to its plan entry by the rule index the shim logs. Faults also arrive as a short first read followed by EIO on the continuation read. distinct = (array, command, target, "
        "errno, io-cache).")


def stripe_state(c, pos):
    ents = c.stripe_map().get(pos, [])
    allblk = bool(ents) and all(e[4] == BLK for e in ents)
    inf = c.info[pos] if pos < len(c.info) else None
    bad = bool(inf and inf[1])
    return allblk, bad, [(c.disk_name(e[0]), e[4]) for e in ents]


def states_by_pos(c):
    out = {}
    for pos, ents in c.stripe_map().items():
        out[pos] = sorted((c.disk_name(e[0]), e[4]) for e in ents)
    return out


def run_case(case):
    seed, idx, tier = case
    rng = random.Random("c08-%d-%d" % (seed, idx))
    variant = "asan" if idx % 4 == 3 else "plain"
    res = dict(key="c08-%d" % idx, violations=[], counters={}, nontrivial=False)
    nlev = [1, 2, 3, 6, 5, 4][idx % 6]
    cfg = scen.gen_config(rng, force=dict(nlev=nlev, nd=rng.randint(2, 4), ncontent=2, content_on_data=False, hashsize=16),
                          allow_splits=False)
    a, fs, state0, hist, cfg = build_synced_array(rng, "c08", cfg, variant, rounds=0, want_migration=False)
    tpl = None
    pts = 0

    def V(key, desc, rep):
        res["violations"].append((key, desc, rep))

    try:
        # plain names only: the rule grammar addresses files by substring
        for phase in ("sync", "scrub", "scrub-unsynced"):
            cmdname = "scrub" if phase.startswith("scrub") else "sync"
            if cmdname == "sync":
                scen.mutate(fs, rng, rng.randint(4, 8), hostile=0.0, ops=["create", "create", "overwrite", "append", "delete"], maxblocks=4)
                base_args = ["-E", "-Z"]
            else:
                tpl.restore()
                r = a.cmd("sync", "-E", "-Z", variant=variant)
                if r.rc != 0:
                    raise scen.CaseError("setup sync failed")
                base_args = ["-p", "full"]
                if phase == "scrub-unsynced":
                    # a file changed since the last sync: its stripes give generic (non silent) errors; an I/O error in
                    # one of those stripes must still get the stripe marked bad
                    cu = a.load_content()
                    cand = [f for f in cu.files if f.size > 0 and all(ch not in f.sub for ch in b":;\n")]
                    if cand:
                        g = rng.choice(cand)
                        gd = a.disk_names.index(cu.disk_name(g.disk).decode())
                        gp = os.path.join(os.fsencode(a.ddir(gd)), g.sub)
                        try:
                            st_ = os.lstat(gp)
                            with open(gp, "r+b") as fh:
                                old_ = fh.read()
                                fh.seek(0)
                                fh.write(bytes((b ^ 0x3C) for b in old_))
                            os.utime(gp, ns=(st_.st_atime_ns, st_.st_mtime_ns + 9_000_000_000))
                        except OSError:
                            pass
            if tpl:
                tpl.cleanup()
            tpl = Template(a)
            combos = [(ioc, base_args) for ioc in ([None, "1", "3"] if tier == "quick" else [None, "1", "3", "8", "128"])]
            if cmdname == "scrub":
                # a small periodic scrub: few stripes selected, and every one of them will hit a fault
                combos += [(ioc, ["-p", "1", "-o", "0"]) for ioc in ([rng.choice([None, "1"])] if tier == "quick" else [None, "1"])]
            for ioc, bargs in combos:
                args = list(bargs) + (["--test-io-cache", ioc] if ioc else [])
                tpl.restore()
                rt = a.cmd(cmdname, *args, variant=variant, shim={})
                if rt.rc != 0 and phase != "scrub-unsynced":
                    raise scen.CaseError("twin %s failed: %s" % (cmdname, rt.err[-200:]))
                evs = shimlog.parse(rt.events)
                ctwin = a.load_content()
                twin_states = states_by_pos(ctwin)
                bs = ctwin.blocksize
                targets = []
                seen = set()
                for e in evs:
                    if e.kind != "E" or e.ret <= 0:
                        continue
                    if e.cls == "data" and e.op == "read" and not e.path.endswith(b".content"):
                        k = ("data", e.path, e.off // bs * bs, "read")
                    elif e.cls == "parity" and e.op in ("read", "write"):
                        k = ("parity", e.path, e.off // bs * bs, e.op)
                    else:
                        continue
                    if k not in seen and all(ch not in e.path for ch in b":;\n"):
                        seen.add(k)
                        targets.append(k)
                if not targets:
                    continue
                all_targets = list(targets)

                def target_pos(t):
                    if t[0] == "parity":
                        return t[2] // bs
                    for d in a.disks:
                        dd = os.fsencode(a.ddir(d)) + b"/"
                        if t[1].startswith(dd):
                            for f in ctwin.files:
                                if ctwin.disk_name(f.disk) == a.disk_names[d].encode() and f.sub == t[1][len(dd):] and t[2] // bs < len(f.blocks):
                                    return f.blocks[t[2] // bs][0]
                    return None
                depth = int(ioc) if ioc else 8
                if tier == "quick" and len(targets) > 14:
                    # always: first, middle, last and the last io-cache-depth stripes
                    pw = [t for t in targets if t[3] == "write"]
                    keep = [targets[0], targets[len(targets) // 2], targets[-1]] + pw[-min(len(pw), depth + 1):]
                    keep += rng.sample(targets, 8)
                    ts = []
                    for t in keep:
                        if t not in ts:
                            ts.append(t)
                    targets = ts
                plans = [[t] for t in targets]
                for _ in range(2 if tier == "quick" else 8):
                    if len(targets) >= 3:
                        plans.append(rng.sample(targets, rng.randint(2, 3)))
                if cmdname == "scrub":
                    # no selected stripe stays healthy: one fault (data read or parity read) in EVERY stripe the run touches
                    by_pos = {}
                    for t in all_targets:
                        if t[3] == "read":
                            pp = target_pos(t)
                            if pp is not None:
                                by_pos.setdefault(pp, []).append(t)
                    if by_pos and len(by_pos) <= 90:
                        if bargs != base_args:
                            plans = []
                        for _ in range(1 if tier == "quick" and bargs == base_args else 2):
                            plans.append([rng.choice(v) for _p, v in sorted(by_pos.items())])
                            res["counters"]["scrub_runs_with_every_selected_stripe_failing"] = res["counters"].get("scrub_runs_with_every_selected_stripe_failing", 0) + 1
                    elif bargs != base_args:
                        plans = []
                # the error arrives the way a bad sector inside the block does: the first read of the block returns only the
                # bytes before it (short read), the continuation read fails with EIO
                rd = [t for t in all_targets if t[3] == "read"]
                for t in rng.sample(rd, min(len(rd), 3 if tier == "quick" else 12)):
                    try:
                        left = os.path.getsize(t[1]) - t[2]
                    except OSError:
                        continue
                    if min(bs, left) >= 2:
                        plans.append([t + (rng.randint(1, min(bs, left) - 1),)])
                for tl in plans:
                    errno = "EIO"
                    if all(t[3] == "write" for t in tl) and rng.random() < 0.4:
                        errno = "ENOSPC"
                    rules_l = []
                    ridx = {}
                    for ti, t in enumerate(tl):
                        if len(t) > 4:
                            rules_l.append("path=%s:read:off=%d-%d:short=%d" % (os.fsdecode(t[1]), t[2], t[2] + 1, t[4]))
                            ridx[ti] = len(rules_l)
                            rules_l.append("path=%s:read:off=%d-%d:err=EIO" % (os.fsdecode(t[1]), t[2] + t[4], t[2] + bs))
                            res["counters"]["short_read_then_eio_plans"] = res["counters"].get("short_read_then_eio_plans", 0) + 1
                        else:
                            ridx[ti] = len(rules_l)
                            rules_l.append("path=%s:%s:off=%d-%d:err=%s" % (os.fsdecode(t[1]), t[3], t[2], t[2] + bs, errno))
                    rules = ";".join(rules_l)
                    tpl.restore()
                    r = a.cmd(cmdname, *args, variant=variant, shim={"plan": rules})
                    ev2 = shimlog.parse(r.events)
                    inj = shimlog.injected(ev2)
                    if not [e for e in inj if e.action != "short"]:
                        # no error was delivered (a short read alone is not an error: the tool reads on, and where the
                        # continuation never touched the failing range there is nothing to propagate)
                        res["counters"]["rule_not_fired"] = res["counters"].get("rule_not_fired", 0) + 1
                        continue
                    pts += 1
                    rep = {"case": list(case), "cfg": cfg, "cmd": [cmdname] + args, "rules": rules}
                    label = "%s %s with %s" % (cmdname, " ".join(args), rules.replace(a.root + "/", ""))
                    for s in r.san:
                        V("sanitizer:" + A.san_key(s), "%s: %s" % (label, s[:2500]), rep)
                    if r.timeout:
                        V("hang-after-io-error:" + cmdname, label, rep)
                        continue
                    c = a.load_content()
                    # which stripes did the faults hit?
                    hit = {}
                    kinds = set()
                    for ti, t in enumerate(tl):
                        fired = [e for e in inj if e.rule == ridx[ti] and e.path == t[1] and e.op == t[3] and e.action == "err"]
                        if not fired:
                            continue
                        if t[0] == "parity":
                            hit.setdefault(t[2] // bs, set()).add("parity-" + t[3])
                            kinds.add("parity-" + t[3])
                        else:
                            kinds.add("data-read")
                            fb = t[2] // bs
                            rel = None
                            for d in a.disks:
                                dd = os.fsencode(a.ddir(d)) + b"/"
                                if t[1].startswith(dd):
                                    rel = (a.disk_names[d].encode(), t[1][len(dd):])
                            for cc in (c,):
                                for f in cc.files:
                                    if rel and cc.disk_name(f.disk) == rel[0] and f.sub == rel[1] and fb < len(f.blocks):
                                        hit.setdefault(f.blocks[fb][0], set()).add("data-read")
                    kind = "+".join(sorted(kinds))
                    # (a) failing status and a diagnostic
                    sio = r.summary("error_io")
                    nio = int(sio[0]) if sio else 0
                    sfile = r.summary("error_file")
                    nfile = int(sfile[0]) if sfile else 0
                    if r.rc == 0:
                        V("io-error-exit-ok:%s:%s" % (cmdname, kind), "%s: exit 0 (error_io=%s error_file=%s) stderr=%s" % (label, nio, nfile, r.err[-200:].decode("latin-1")), rep)
                    elif nio + nfile == 0 and not r.err.strip():
                        V("io-error-no-diagnostic:%s:%s" % (cmdname, kind), "%s: rc=%s but no diagnostic" % (label, r.rc), rep)
                    # (b) the stripe concerned must not be recorded synced and healthy
                    rs = a.cmd("status", "-G", variant=variant)
                    shown_bad = {int(t[1]) for t in rs.tag("block") if len(t) >= 6 and t[5] == b"bad"}
                    shown_unsynced = {int(t[1]) for t in rs.tag("block") if len(t) >= 5 and t[4] == b"unsynced"} | \
                                     {int(t[1]) for t in rs.tag("block_noinfo") if len(t) >= 4 and t[3] == b"unsynced"}
                    for pos in sorted(hit):
                        allblk, bad, ents = stripe_state(c, pos)
                        if not ents:
                            continue
                        skind = "+".join(sorted(hit[pos]))
                        if allblk and not bad:
                            V("stripe-recorded-synced-after-io-error:%s:%s" % (cmdname, skind),
                              "%s: stripe %d is recorded all-synced and not bad (%s)" % (label, pos, evidence.jsonable(ents)), rep)
                        elif pos not in shown_bad and pos not in shown_unsynced:
                            V("status-hides-failed-stripe:%s:%s" % (cmdname, skind), "%s: stripe %d not shown bad/unsynced by status" % (label, pos), rep)
                    # (c) all other stripes as in the fault-free twin, and valid
                    now_states = states_by_pos(c)
                    diff = [p for p in set(now_states) | set(twin_states) if p not in hit and now_states.get(p) != twin_states.get(p)]
                    limit_hit = b"limit" in r.err.lower() or b"stopping" in r.err.lower()
                    if diff and not limit_hit and cmdname == "sync":
                        V("other-stripes-not-processed:%s:%s" % (cmdname, kind), "%s: stripes %s differ from the fault-free run (%s vs %s)" %
                          (label, sorted(diff)[:5], evidence.jsonable(now_states.get(sorted(diff)[0])), evidence.jsonable(twin_states.get(sorted(diff)[0]))), rep)
                    pr = []
                    bad_par = c06_oracle(a, fs, pr, {}, label)
                    bad_other = {k: v for k, v in bad_par.items() if k[0] not in hit}
                    if bad_other and [x for x in pr if x[0] == "parity-mismatch"]:
                        V("parity-invalid-on-untouched-stripe:%s:%s" % (cmdname, kind), "%s: %s" % (label, sorted(bad_other.items())[:3]), rep)
                    for key, desc in pr:
                        if key != "parity-mismatch":
                            V(key, desc, rep)
                    # scrub must not have modified parity or data
                    if cmdname == "scrub":
                        tp = {}
                        for pth in a.all_parity_paths():
                            o = os.path.join(tpl.tpl, "par", os.path.basename(pth))
                            if os.path.exists(o) and open(o, "rb").read() != open(pth, "rb").read():
                                V("scrub-modified-parity", label, rep)
                    # (d) repair: fix -e + scrub -p bad, or the next sync
                    rf = a.cmd("fix", "-e", variant=variant)
                    r3 = a.cmd("sync", "-E", "-Z", variant=variant)
                    r4 = a.cmd("scrub", "-p", "bad", variant=variant)
                    c2 = a.load_content()
                    pr2 = []
                    bad2 = c06_oracle(a, fs, pr2, {}, label + " after fix -e, sync, scrub -p bad")
                    still = []
                    for pos in sorted(hit):
                        allblk, bad, ents = stripe_state(c2, pos)
                        if ents and (not allblk or bad):
                            still.append((pos, allblk, bad))
                    if r3.rc != 0 or r4.rc != 0 or pr2 or still:
                        badpos = {k_[0] for k_ in bad2} | {x[0] for x in still}
                        rk = "+".join(sorted({kk for pos in badpos & set(hit) for kk in hit[pos]})) or kind
                        V("not-repaired-after-io-error:%s:%s" % (cmdname, rk), "%s: fix -e rc=%s, sync rc=%s, scrub -p bad rc=%s, parity problems=%s, stripes still unsynced/bad=%s" %
                          (label, rf.rc, r3.rc, r4.rc, [x[1][-80:] for x in pr2[:2]], still[:3]), rep)
                    res["counters"]["faults_injected"] = res["counters"].get("faults_injected", 0) + len(inj)
                    res["counters"]["kind_" + kind] = res["counters"].get("kind_" + kind, 0) + 1
                    if _unmatched(res) >= 6:
                        break
                if _unmatched(res) >= 6:
                    break
            if _unmatched(res) >= 6:
                break
        res["nontrivial"] = pts > 0
        res["points"] = pts
        res["sample"] = {"cfg": cfg, "points": pts}
        return res
    finally:
        if tpl:
            tpl.cleanup()
        a.cleanup()


def main(tier, seed, replay, jobs, scale):
    run = evidence.Run("C08", tier, seed, "fault_enumeration", RULE)
    if replay:
        import json
        cases = [tuple(json.load(open(replay))["replay"]["case"])]
    else:
        n = int((12 if tier == "quick" else 60) * scale)
        cases = [(seed, i, tier) for i in range(n)]
    results = list(par.run_cases(run_case, cases, jobs))
    par.absorb(run, results)
    n = sum(r.get("points", 0) for _c, r in results)
    run.evaluations = n
    run.nontrivial = set(range(n))
    run.extra["fault_points"] = n
    run.assumptions += ["faults are injected at the libc boundary (read/pread/write/pwrite), once per addressed (file, block offset)",
                        "single split per parity level and hash size 16 in this check (split and hash variations are covered by C17/C01)"]
    if n == 0:
        run.inconc("no fault fired")
    return run.finish(min_eval=30, min_nontrivial=30)
