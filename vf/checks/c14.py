"""C14 Safety interlocks refuse destructive syncs and change nothing."""
import os
import shutil
import random
import subprocess
import threading
import time

from .. import arr as A
from .. import content as cnt
from .. import evidence, par, scen, shimlog
from .c01 import Template, build_synced_array

RULE = ("each trigger on each disk / parity level of small synced arrays, alone and mixed with ordinary pending changes: all files of a "
        "data disk missing; all of them rewritten; a previously non-empty file now empty; a parity file truncated below the size the "
        "recorded state requires; blocksize or hashsize of the configuration different from the content file; a recorded disk missing "
        "from the configuration; the lock held by another command (first command held inside its run by a shim delay at several call "
        "indices while each other command is started). Oracle: without the override sync exits non-zero and the bytes (and sizes) of "
        "every content and parity file are unchanged and no other path is created; with the override (-E, -Z, -F; restored "
        "configuration; after the other command has ended) the same sync exits 0. The all-missing / all-rewritten triggers remove the whole tree or only files and links (directory skeleton and recorded empty directories left). distinct = (array, trigger, target, mixed?).")

TRIGGERS = ["disk-missing", "disk-rewritten", "file-emptied", "parity-truncated", "blocksize-changed", "hashsize-changed", "disk-dropped-from-config", "lock-held"]


def _unmatched(res):
    from .. import findings
    return len([v for v in res["violations"] if findings.match("C14", v[0]) is None])


def cp_snapshot(a):
    s = {}
    for p in a.cpaths() + a.all_parity_paths():
        try:
            with open(p, "rb") as f:
                s[p] = f.read()
        except FileNotFoundError:
            s[p] = None
    s["__dirs__"] = (sorted(os.listdir(os.path.join(a.root, "par"))), sorted(n for n in os.listdir(os.path.join(a.root, "cnt")) if not n.endswith(".lock")))
    return s


def add_new_files(a, fs, rng, d, res):
    """New files appear on the disk that lost / rewrote everything it had: fresh data, and time-stamp preserving copies
    (cp -p) of files synced on OTHER disks, under the same or another directory - none of them is one of the disk's own
    previously known files, so the interlock must still fire."""
    base = os.fsencode(a.ddir(d))
    n = 0
    others = [(d2, s) for (d2, s) in fs.files() if d2 != d and d2 in a.disks and os.path.isfile(fs.path(d2, s))]
    for (d2, s) in rng.sample(others, min(len(others), rng.randint(1, 3))):
        rel = s if rng.random() < 0.6 else b"copied/" + s.split(b"/")[-1]
        dst = os.path.join(base, rel)
        # not a name the disk itself had recorded: a same-name, same-stamp twin would be a legitimately "restored" file
        if os.path.lexists(dst) or rel in fs.entries[d]:
            continue
        try:
            os.makedirs(os.path.dirname(dst), exist_ok=True)
            shutil.copy2(fs.path(d2, s), dst)
            n += 1
        except OSError:
            pass
    with open(os.path.join(base, b"brand-new-%d" % rng.randint(0, 99)), "wb") as f:
        f.write(A.gen_bytes(rng, rng.randint(1, 3000)))
    res["counters"]["copies_onto_trigger_disk"] = res["counters"].get("copies_onto_trigger_disk", 0) + n


def lock_held(path):
    """True when some process holds a flock on path (read from /proc/locks: the harness never touches the lock itself)."""
    try:
        st = os.stat(path)
    except OSError:
        return False
    want = "%02x:%02x:%d" % (os.major(st.st_dev), os.minor(st.st_dev), st.st_ino)
    try:
        with open("/proc/locks") as f:
            for line in f:
                if "FLOCK" in line and want in line.split():
                    return True
    except OSError:
        pass
    return False


def run_case(case):
    seed, idx, tier = case
    rng = random.Random("c14-%d-%d" % (seed, idx))
    variant = "asan" if idx % 5 == 4 else "plain"
    res = dict(key=None, violations=[], counters={}, nontrivial=False)
    cfg = scen.gen_config(rng, max_nd=4, max_lev=3, force=dict(nd=rng.randint(2, 4)))
    a, fs, state0, hist, cfg = build_synced_array(rng, "c14", cfg, variant, rounds=rng.randint(0, 1), want_migration=False)
    tpl = None
    V = res["violations"]
    try:
        # make sure every disk has at least one non-empty file
        for d in a.disks:
            if not [1 for (dd, s) in fs.files(d) if len(fs.entries[d][s][1]) > 0]:
                fs.write(d, b"seed-file-%d" % d, A.gen_bytes(rng, 1500, "rand"))
        # recorded empty directories: they are not files, so one that simply stays where it is says nothing about the disk
        for d in a.disks:
            if rng.random() < 0.6 and scen._clear_path(fs, d, b"empty-skel-%d" % d):
                fs.mkdir(d, b"empty-skel-%d" % d)
        r = a.cmd("sync", "-E", "-Z", variant=variant)
        if r.rc != 0:
            raise scen.CaseError("setup sync failed")
        tpl = Template(a)
        base_list = list(TRIGGERS) if tier == "thorough" else ["parity-truncated"] + rng.sample([t for t in TRIGGERS if t != "parity-truncated"], 3)
        trig_list = []
        for t in base_list:
            if t == "parity-truncated":
                # every level on its own, emptied completely or cut somewhere
                for l_ in range(a.nlev):
                    for k_ in (("zero", "part") if tier == "thorough" else (rng.choice(["zero", "zero", "part"]),)):
                        trig_list.append((t, l_, k_))
            else:
                trig_list.append((t, None, None))
        for (trig, lsel, ksel) in trig_list:
            for mixed in ((False, True) if tier == "thorough" else (rng.random() < 0.5,)):
                tpl.restore()
                # the model must follow the restore: rebuild entries from state0 is not needed, we only mutate on disk below
                target = None
                override = []
                restore_conf = None
                if mixed:
                    # ordinary pending changes on other disks (directly on disk; the model is not needed here)
                    for k in range(rng.randint(1, 3)):
                        d = rng.choice(a.disks)
                        with open(os.path.join(a.ddir(d), "pending-%d" % k), "wb") as f:
                            f.write(A.gen_bytes(rng, rng.randint(1, 4000)))
                if trig == "disk-missing":
                    d = rng.choice(a.disks)
                    target = a.disk_names[d]
                    keep_content = [c for c in a.cpaths() if c.startswith(a.ddir(d) + "/")]
                    saved = {c: open(c, "rb").read() for c in keep_content if os.path.exists(c)}
                    if rng.random() < 0.5:
                        # every file and link is gone, the directory skeleton (incl. recorded empty directories) is still there
                        for root, dirs, files in os.walk(os.fsencode(a.ddir(d)), topdown=False):
                            for n in files:
                                try:
                                    os.unlink(os.path.join(root, n))
                                except OSError:
                                    pass
                            for n in dirs:
                                if os.path.islink(os.path.join(root, n)):
                                    os.unlink(os.path.join(root, n))
                        res["counters"]["disk_missing_with_directory_skeleton_left"] = res["counters"].get("disk_missing_with_directory_skeleton_left", 0) + 1
                    else:
                        scen.wipe_disk(a, d)
                    for c, data in saved.items():
                        os.makedirs(os.path.dirname(c), exist_ok=True)
                        with open(c, "wb") as f:
                            f.write(data)
                    override = ["-E"]
                    if mixed:
                        add_new_files(a, fs, rng, d, res)
                elif trig == "disk-rewritten":
                    d = rng.choice(a.disks)
                    target = a.disk_names[d]
                    base = os.fsencode(a.ddir(d))
                    now = int(time.time())
                    # nothing recorded may stay equal: links go, every file is rewritten; empty directories go or stay (they are
                    # not files)
                    keep_dirs = rng.random() < 0.5
                    seen_ino = set()
                    for root, dirs, files in os.walk(base, topdown=False):
                        for n in files + dirs:
                            p = os.path.join(root, n)
                            if n.startswith(b"snapraid.content"):
                                continue
                            st = os.lstat(p)
                            if os.path.islink(p):
                                os.unlink(p)
                            elif os.path.isdir(p):
                                if not os.listdir(p) and not keep_dirs:
                                    os.rmdir(p)
                            elif st.st_ino in seen_ino:
                                os.unlink(p)
                            else:
                                seen_ino.add(st.st_ino)
                                with open(p, "ab") as f:
                                    f.write(b"x")
                                os.utime(p, ns=(st.st_atime_ns, st.st_mtime_ns + 5_000_000_000))
                    if not seen_ino:
                        continue
                    override = ["-E"]
                    if mixed:
                        add_new_files(a, fs, rng, d, res)
                elif trig == "file-emptied":
                    cands = [(d, s) for (d, s) in fs.files() if len(fs.entries[d][s][1]) > 0 and not fs.links_of(d, s) and os.path.exists(fs.path(d, s))]
                    cands = [(d, s) for (d, s) in cands if d in a.disks]
                    if not cands:
                        continue
                    d, s = rng.choice(cands)
                    target = (a.disk_names[d], s)
                    p = fs.path(d, s)
                    st = os.lstat(p)
                    with open(p, "wb"):
                        pass
                    if rng.random() < 0.5:
                        os.utime(p, ns=(st.st_atime_ns, st.st_mtime_ns))
                    override = ["-Z"]
                elif trig == "parity-truncated":
                    c = a.load_content()
                    if c.blockmax < 2:
                        continue
                    l = lsel
                    used = [p for p in a.ppaths(l) if os.path.exists(p) and os.path.getsize(p) >= c.blocksize]
                    if not used:
                        continue
                    p = used[0] if ksel == "zero" else rng.choice(used)
                    sz = os.path.getsize(p)
                    if ksel == "zero":
                        cut = 0
                    else:
                        cut = (rng.randint(0, max(0, sz // c.blocksize - 1))) * c.blocksize + rng.choice([0, 0, 1, 513])
                    target = "level %d cut to %d of %d" % (l, cut, sz)
                    with open(p, "r+b") as f:
                        f.truncate(cut)
                    override = ["-F"]
                elif trig == "blocksize-changed":
                    other = [k for k in (1, 2, 4, 8) if k != a.blocksize_k]
                    nb = rng.choice(other)
                    target = "%d -> %d KiB" % (a.blocksize_k, nb)
                    a.write_conf(blocksize_k=nb)
                    restore_conf = True
                elif trig == "hashsize-changed":
                    other = [k for k in (16, 8, 4, 2) if k != a.hashsize]
                    nh = rng.choice(other)
                    target = "%d -> %d" % (a.hashsize, nh)
                    a.write_conf(hashsize=nh)
                    restore_conf = True
                elif trig == "disk-dropped-from-config":
                    cands = [d for d in a.disks if not any(cp.startswith(a.ddir(d) + "/") for cp in a.cpaths())]
                    if not cands or len(a.disks) < 2:
                        continue
                    d = rng.choice(cands)
                    target = a.disk_names[d]
                    a.write_conf(drop_disks=(d,))
                    restore_conf = True
                elif trig == "lock-held":
                    # first command held inside its run by a delay rule; second command must be refused
                    first = rng.choice([("sync", ["-F"]), ("scrub", ["-p", "full"]), ("check", []), ("fix", [])])
                    ncall = rng.choice([1, 2, 5])
                    # the lock must not depend on which content copies happen to exist when the command starts
                    lock_variant = rng.choice(["all-copies", "all-copies", "new-array", "first-copy-missing"])
                    if lock_variant == "new-array":
                        for p_ in a.cpaths() + a.all_parity_paths():
                            if os.path.exists(p_):
                                os.unlink(p_)
                        first = ("sync", [])
                    elif lock_variant == "first-copy-missing" and len(a.cpaths()) >= 2:
                        os.unlink(a.cpaths()[0])
                    else:
                        lock_variant = "all-copies"
                    res["counters"]["lock_" + lock_variant] = res["counters"].get("lock_" + lock_variant, 0) + 1
                    opn = {"sync": "parity:write", "scrub": "parity:read", "check": "parity:read", "fix": "parity:read"}[first[0]]
                    holder = {}

                    def run_first():
                        holder["r"] = a.cmd(first[0], *first[1], variant="plain", shim={"plan": "%s:n=%d:delay=2500" % (opn, ncall)}, timeout=180)
                    before = cp_snapshot(a)
                    # snapshot must exclude what the *first* command legitimately changes: use a read-only first command for the byte check
                    lockfile = a.cpaths()[0] + ".lock"
                    th = threading.Thread(target=run_first)
                    th.start()
                    # no wall-clock assumptions: wait until the first command is seen holding the lock ...
                    t_end = time.time() + 60
                    while time.time() < t_end and th.is_alive() and not lock_held(lockfile):
                        time.sleep(0.02)
                    held_before = lock_held(lockfile)
                    second = rng.choice(["sync", "scrub", "fix", "check", "status", "diff", "list", "touch", "rehash"])
                    # Array.cmd is not re-entrant on logn: run the second by hand
                    exe = __import__("vf.build", fromlist=["x"]).snapraid("plain")
                    lg = os.path.join(a.root, "logs", "second.log")
                    p2 = subprocess.run([exe, "-c", a.conf] + A.BASE_OPTS + ["-l", lg, second], stdout=subprocess.PIPE, stderr=subprocess.PIPE, cwd=a.root)
                    # ... and is still holding it when the second command has ended: only then the two runs overlapped for sure
                    held_after = lock_held(lockfile) and th.is_alive()
                    th.join()
                    res["counters"]["lock_pairs"] = res["counters"].get("lock_pairs", 0) + 1
                    rep = {"case": list(case), "cfg": cfg, "trigger": trig, "first": [first[0]] + first[1], "second": second, "delay_at": ncall, "content_copies": lock_variant}
                    inj = shimlog.injected(shimlog.parse(holder["r"].events)) if holder.get("r") else []
                    if not inj:
                        res["counters"]["lock_delay_not_fired"] = res["counters"].get("lock_delay_not_fired", 0) + 1
                    elif not held_before:
                        # the first command was delayed for 2.5 s inside its run (the shim confirms it) and was polled every 20 ms
                        V.append(("lock-never-taken", "%s %s ran (delay rule fired) without ever holding a lock on %s" %
                                  (first[0], first[1], os.path.basename(lockfile)), rep))
                    elif not held_after:
                        res["counters"]["lock_overlap_unconfirmed"] = res["counters"].get("lock_overlap_unconfirmed", 0) + 1
                    elif p2.returncode == 0 or b"already in use" not in p2.stderr:
                        V.append(("lock-not-enforced", "%s started while %s %s was running: rc=%s stderr=%s" %
                                  (second, first[0], first[1], p2.returncode, p2.stderr[-200:].decode("latin-1")), rep))
                    else:
                        res["counters"]["refusals"] = res["counters"].get("refusals", 0) + 1
                    # after the other command has ended the same command proceeds
                    p3 = subprocess.run([exe, "-c", a.conf] + A.BASE_OPTS + ["-l", lg, second], stdout=subprocess.PIPE, stderr=subprocess.PIPE, cwd=a.root)
                    if b"already in use" in p3.stderr:
                        V.append(("lock-stuck-after-command-ended", "%s still refused after %s ended" % (second, first[0]), rep))
                    res["counters"]["cases"] = res["counters"].get("cases", 0) + 1
                    continue
                # ---- generic trigger evaluation
                before = cp_snapshot(a)
                r = a.cmd("sync", variant=variant)
                after = cp_snapshot(a)
                rep = {"case": list(case), "cfg": cfg, "trigger": trig, "target": evidence.jsonable(target), "mixed": mixed}
                label = "trigger %s on %s%s" % (trig, evidence.jsonable(target), " + pending changes" if mixed else "")
                res["counters"]["cases"] = res["counters"].get("cases", 0) + 1
                res["counters"]["trig_" + trig] = res["counters"].get("trig_" + trig, 0) + 1
                for s_ in r.san:
                    V.append(("sanitizer:" + A.san_key(s_), s_[:2000], rep))
                if r.rc == 0:
                    V.append(("interlock-not-enforced:" + trig, "%s: sync exited 0" % label, rep))
                else:
                    res["counters"]["refusals"] = res["counters"].get("refusals", 0) + 1
                if before != after:
                    ch = [os.path.basename(k) for k in before if k != "__dirs__" and before[k] != after.get(k)]
                    if trig == "parity-truncated" and all(k_.endswith(".par") for k_ in ch) and False:
                        pass
                    V.append(("refused-sync-altered-files:" + trig, "%s: rc=%s but changed: %s dirs %s -> %s" %
                              (label, r.rc, ch, before["__dirs__"], after["__dirs__"]), rep))
                # ---- an override meant for ANOTHER interlock does not open this one
                wrong = {"file-emptied": ["-E"], "disk-missing": ["-Z"], "disk-rewritten": ["-Z"], "parity-truncated": ["-E", "-Z"],
                         "blocksize-changed": ["-E", "-Z"], "hashsize-changed": ["-E", "-Z"], "disk-dropped-from-config": ["-Z"]}.get(trig)
                if wrong and r.rc != 0 and before == after:
                    rw = a.cmd("sync", *wrong, variant=variant)
                    after_w = cp_snapshot(a)
                    res["counters"]["wrong_override_runs"] = res["counters"].get("wrong_override_runs", 0) + 1
                    if rw.rc == 0:
                        V.append(("interlock-opened-by-unrelated-override:" + trig, "%s: sync %s exited 0" % (label, " ".join(wrong)), rep))
                    elif before != after_w:
                        ch = [os.path.basename(k) for k in before if k != "__dirs__" and before[k] != after_w.get(k)]
                        V.append(("refused-sync-altered-files:" + trig, "%s: sync %s rc=%s but changed: %s" % (label, " ".join(wrong), rw.rc, ch), rep))
                # ---- with the override the same sync proceeds
                if restore_conf:
                    a.write_conf()
                r2 = a.cmd("sync", *override, variant=variant)
                if r2.rc != 0:
                    # other interlocks may legitimately fire too when mixed; only the plain case is judged
                    extra = [o for o in ("-E", "-Z") if o not in override]
                    r3 = a.cmd("sync", *(override + extra), variant=variant)
                    if r3.rc != 0:
                        V.append(("override-does-not-proceed:" + trig, "%s: sync %s rc=%s %s" % (label, override + extra, r3.rc, r3.err[-250:].decode("latin-1")), rep))
                if _unmatched(res) >= 4:
                    break
            if _unmatched(res) >= 4:
                break
        res["nontrivial"] = res["counters"].get("refusals", 0) > 0
        res["n"] = res["counters"].get("cases", 0)
        res["key"] = "%s|%s" % (sorted((k, str(v)) for k, v in cfg.items()), trig_list)
        res["sample"] = {"cfg": cfg, "triggers": trig_list}
        return res
    finally:
        if tpl:
            tpl.cleanup()
        a.cleanup()


def main(tier, seed, replay, jobs, scale):
    run = evidence.Run("C14", tier, seed, "exploration", RULE)
    if replay:
        import json
        cases = [tuple(json.load(open(replay))["replay"]["case"])]
    else:
        n = int((80 if tier == "quick" else 600) * scale)
        cases = [(seed, i, tier) for i in range(n)]
    results = list(par.run_cases(run_case, cases, min(jobs, 8)))
    par.absorb(run, results)
    n = sum(r.get("n", 0) for _c, r in results)
    run.evaluations = n
    run.nontrivial = set(range(run.counters.get("refusals", 0)))
    run.assumptions += ["'parity smaller' is produced by truncation, not deletion (sync opens parity files with O_CREAT)",
                        "the lock test holds the first command with a 1.5 s shim delay; a pair whose delay rule did not fire is not counted"]
    return run.finish(min_eval=20, min_nontrivial=10)
