"""C16 Arrays written by the reference version stay readable and repairable."""
import hashlib
import itertools
import json
import os
import random
import shutil

from .. import arr as A
from .. import build, cmdmon, evidence, par, raidmon, refarr, refhash, refvec, scen
from .c01 import Template

RULE = ("differential against recorded observations of the reference (pinned) version: (a) vendored arrays written by the pristine "
        "tree (murmur3 and spooky2; hash sizes 16/8/4/2; 1..6 parities and z-parity; split layouts; content format 2 and 3; hash "
        "migration in progress; fragmented allocation) are restored; check must pass with no error, then device subsets of size "
        "<= N are removed (all subsets in thorough, sampled incl. a full-N one in quick) and fix must reproduce the stored bytes, "
        "time-stamps and links, with a clean check afterwards; (b) the current tree's memhash (murmur3, spooky2) for every length "
        "0..1100 x 8 seeds, crc32c table and SSE4.2 variants for every length 0..1100, and raid_gen parity of deterministic stripes "
        "are compared with stored vectors and with the frozen reference sources; (c) 60 content files WRITTEN by the reference version for "
        "constructed states with boundary values (64-bit time-stamps and inodes, varint boundaries, every record kind, format 2 and 3) must "
        "load, print what the reference printed in list -l / status -G -l, and be written back bit for bit. One vendored array has map records out of position order; every vendored array is also verified and repaired after a brand-new empty data disk was added to the configuration. Arrays with split parity also lose ONE split file of a level (every non-last split must have its recorded size again after fix). distinct = (array, subset) + vector sets.")


def truth_of(a):
    t = {}
    for d in a.disks:
        base = os.fsencode(a.ddir(d))
        for root, dirs, files in os.walk(base):
            for n in dirs + files:
                p = os.path.join(root, n)
                rel = p[len(base) + 1:]
                st = os.lstat(p)
                if os.path.islink(p):
                    t[(d, rel)] = ("symlink", os.readlink(p))
                elif os.path.isdir(p):
                    if not os.listdir(p):
                        t[(d, rel)] = ("dir",)
                else:
                    with open(p, "rb") as f:
                        t[(d, rel)] = ("file", f.read(), st.st_mtime_ns, st.st_ino, st.st_nlink)
    return t


def compare_truth(a, truth):
    probs = []
    stamps = {}
    for (d, rel), v in truth.items():
        if v[0] == "file":
            stamps.setdefault((d, len(v[1]), v[2]), []).append(rel)
    for (d, rel), v in truth.items():
        p = os.path.join(os.fsencode(a.ddir(d)), rel)
        if not os.path.lexists(p):
            probs.append((d, rel, "missing"))
            continue
        if v[0] == "symlink":
            if not os.path.islink(p) or os.readlink(p) != v[1]:
                probs.append((d, rel, "symlink differs"))
        elif v[0] == "dir":
            if not os.path.isdir(p):
                probs.append((d, rel, "not a dir"))
        else:
            with open(p, "rb") as f:
                if f.read() != v[1]:
                    probs.append((d, rel, "content differs"))
                    continue
            if os.lstat(p).st_mtime_ns != v[2] and len(stamps[(d, len(v[1]), v[2])]) < 2:
                probs.append((d, rel, "mtime differs"))
    return probs


def run_array(case):
    _k, seed, name, tier = case
    rng = random.Random("c16-%d-%s" % (seed, name))
    res = dict(key="array-" + name, violations=[], counters={}, nontrivial=False)
    a, man = refarr.restore(name)
    tpl = None
    variant = "plain"
    try:
        extra = man.get("extra", [])
        rep = {"case": list(case), "cfg": man["cfg"]}
        truth = truth_of(a)
        if man.get("spec", {}).get("partial"):
            return run_partial(a, man, truth, res, rep, name, rng, tier, variant)
        r = a.cmd("check", *extra, variant=variant)
        errs = [t for t in r.tags if t[0] in (b"error", b"parity_error", b"unrecoverable")]
        if r.rc != 0 or errs:
            res["violations"].append(("reference-array-does-not-verify", "%s: check rc=%s errors=%s %s" % (name, r.rc, evidence.jsonable(errs[:3]), r.err[-300:].decode("latin-1")), rep))
            return res
        ra = a.cmd("check", "-a", *extra, variant="asan")
        for s_ in ra.san:
            res["violations"].append(("sanitizer:" + A.san_key(s_), s_[:2500], rep))
        if ra.rc != 0:
            res["violations"].append(("reference-array-does-not-verify", "%s: check -a (asan build) rc=%s" % (name, ra.rc), rep))
        for cmd in ("status", "list", "diff"):
            rr = a.cmd(cmd, *extra, variant=variant)
            if rr.rc not in (0,) and not (cmd == "diff" and rr.rc == 2):
                res["violations"].append(("reference-array-does-not-load", "%s: %s rc=%s %s" % (name, cmd, rr.rc, rr.err[-200:].decode("latin-1")), rep))
        res["counters"]["arrays"] = 1
        tpl = Template(a)
        devs = [("data", d) for d in a.disks] + [("parity", l) for l in range(a.nlev)]
        subsets = []
        if tier == "thorough":
            for k in range(1, a.nlev + 1):
                cmb = list(itertools.combinations(devs, k))
                if len(cmb) > 80:
                    cmb = rng.sample(cmb, 80)
                subsets += cmb
        else:
            subsets.append(tuple(rng.sample(devs, min(a.nlev, len(devs)))))
            subsets.append((rng.choice([x for x in devs if x[0] == "data"]),))
            datas = [x for x in devs if x[0] == "data"]
            subsets.append(tuple(rng.sample(datas, min(a.nlev, len(datas)))))
        # split layouts: one split FILE of a level is lost (its disk died) while the other files of the level survive
        for l in range(a.nlev):
            pp = [p_ for p_ in a.ppaths(l) if os.path.exists(p_) and os.path.getsize(p_) > 0]
            if len(pp) >= 2:
                picks = list(range(len(pp))) if tier == "thorough" else [0, rng.randrange(len(pp))]
                for k_ in sorted(set(picks)):
                    subsets.append((("split", (l, k_)),))
                    if a.nlev >= 2:
                        subsets.append((("split", (l, k_)), rng.choice([x for x in devs if x[0] == "data"])))
        n = 0
        for sub in subsets:
            tpl.restore()
            sizes0 = {p_: os.path.getsize(p_) for p_ in a.all_parity_paths() if os.path.exists(p_)}
            for kind, i in sub:
                if kind == "data":
                    scen.wipe_disk(a, i)
                elif kind == "split":
                    os.unlink([p_ for p_ in a.ppaths(i[0]) if os.path.exists(p_) and os.path.getsize(p_) > 0][i[1]])
                    res["counters"]["single_split_files_lost"] = res["counters"].get("single_split_files_lost", 0) + 1
                else:
                    for p in a.ppaths(i):
                        if os.path.exists(p):
                            os.unlink(p)
            rf = a.cmd("fix", *extra, variant=variant)
            n += 1
            rep2 = dict(rep, lost=[list(x) for x in sub])
            if rf.rc != 0:
                res["violations"].append(("reference-array-not-repairable", "%s lost %s: fix rc=%s %s" % (name, list(sub), rf.rc, rf.err[-300:].decode("latin-1")), rep2))
                continue
            pr = compare_truth(a, truth)
            if pr:
                res["violations"].append(("reference-array-repaired-wrong:" + pr[0][2], "%s lost %s: %s" % (name, list(sub), evidence.jsonable(pr[:3])), rep2))
                continue
            rc = a.cmd("check", *extra, variant=variant)
            if rc.rc != 0:
                res["violations"].append(("reference-array-check-fails-after-fix", "%s lost %s: check rc=%s" % (name, list(sub), rc.rc), rep2))
            elif any(k_ == "split" for k_, _i in sub):
                # the recorded split sizes still describe the files: a non-last split has exactly its old size again
                for l in range(a.nlev):
                    pp = [p_ for p_ in a.ppaths(l) if p_ in sizes0 and sizes0[p_] > 0]
                    for p_ in pp[:-1]:
                        if not os.path.exists(p_) or os.path.getsize(p_) != sizes0[p_]:
                            res["violations"].append(("reference-split-layout-changed-by-fix", "%s lost %s: %s is %s bytes, was %d" %
                                                       (name, list(sub), os.path.basename(p_), os.path.getsize(p_) if os.path.exists(p_) else None, sizes0[p_]), rep2))
                            break
        # the user adds a brand new, empty data disk to the configuration: the reference-written content has no record for
        # it; everything must still load, verify and be repairable (the new disk gets a free position)
        tpl.restore()
        newd = a.add_disk()
        rep3 = dict(rep, added_disk=a.disk_names[newd])
        ok3 = True
        for cmd in ("status", "check"):
            rr = a.cmd(cmd, *extra, variant=variant)
            if rr.rc != 0:
                res["violations"].append(("reference-array-does-not-load-with-a-new-disk-configured", "%s: %s rc=%s %s" % (name, cmd, rr.rc, rr.err[-200:].decode("latin-1")), rep3))
                ok3 = False
                break
        if ok3:
            sub = tuple(rng.sample([x for x in devs if x[0] == "data"], min(a.nlev, len([x for x in devs if x[0] == "data"]))))
            for kind, i in sub:
                scen.wipe_disk(a, i)
            rf = a.cmd("fix", *extra, variant=variant)
            n += 1
            truth3 = {k_: v_ for k_, v_ in truth.items()}
            pr = compare_truth(a, truth3) if rf.rc == 0 else None
            if rf.rc != 0:
                res["violations"].append(("reference-array-not-repairable", "%s with a new disk configured, lost %s: fix rc=%s %s" % (name, list(sub), rf.rc, rf.err[-300:].decode("latin-1")), rep3))
            elif pr:
                res["violations"].append(("reference-array-repaired-wrong:" + pr[0][2], "%s with a new disk configured, lost %s: %s" % (name, list(sub), evidence.jsonable(pr[:3])), rep3))
            res["counters"]["arrays_with_new_disk_configured"] = 1
        res["counters"]["subsets"] = n
        res["nontrivial"] = n > 0
        res["n"] = n + 1
        res["sample"] = {"array": name, "cfg": man["cfg"], "subsets": [[list(x) for x in s] for s in subsets[:3]]}
        return res
    finally:
        if tpl:
            tpl.cleanup()
        a.cleanup()


def run_partial(a, man, truth, res, rep, name, rng, tier, variant):
    """An array the reference version left in the middle of a sync (new files recorded, not yet synced). Every file that was
    completely synced at that point must still be rebuilt bit for bit by the tree under test after its disk loses it."""
    import base64
    tpl = None
    try:
        for cmd in ("status", "list", "diff"):
            rr = a.cmd(cmd, variant=variant)
            if rr.rc not in (0,) and not (cmd == "diff" and rr.rc == 2):
                res["violations"].append(("reference-array-does-not-load", "%s: %s rc=%s %s" % (name, cmd, rr.rc, rr.err[-200:].decode("latin-1")), rep))
                return res
        res["counters"]["arrays"] = 1
        synced = {}
        for dn, sub64 in man["spec"]["synced"]:
            synced.setdefault(a.disk_names.index(dn), []).append(base64.b64decode(sub64))
        tpl = Template(a)
        n = 0
        disks = sorted(synced)
        if tier == "quick" and len(disks) > 2:
            disks = rng.sample(disks, 2)
        for d in disks:
            for how in (["all"] if tier == "quick" else ["all", "one"]):
                tpl.restore()
                subs = synced[d] if how == "all" else [rng.choice(synced[d])]
                for sub in subs:
                    os.unlink(os.path.join(os.fsencode(a.ddir(d)), sub))
                rf = a.cmd("fix", "-d", a.disk_names[d], variant=variant)
                n += 1
                rep2 = dict(rep, lost_disk=a.disk_names[d], lost=evidence.jsonable(subs[:4]))
                for s_ in rf.san:
                    res["violations"].append(("sanitizer:" + A.san_key(s_), s_[:2500], rep2))
                bad = []
                for sub in subs:
                    p = os.path.join(os.fsencode(a.ddir(d)), sub)
                    want = truth[(d, sub)]
                    try:
                        with open(p, "rb") as f:
                            got = f.read()
                    except OSError:
                        bad.append((sub, "not restored"))
                        continue
                    if got != want[1]:
                        bad.append((sub, "other bytes"))
                if bad:
                    res["violations"].append(("reference-partial-sync-array-not-repairable", "%s (left by the reference after 'sync %s'): files that were "
                                              "completely synced are not rebuilt after disk %s lost them: %s (fix rc=%s)" %
                                              (name, " ".join(man["spec"]["how"]), a.disk_names[d], evidence.jsonable(bad[:3]), rf.rc), rep2))
        res["counters"]["subsets"] = n
        res["counters"]["partial_sync_arrays"] = 1
        res["nontrivial"] = n > 0
        res["n"] = n + 1
        res["sample"] = {"array": name, "cfg": man["cfg"], "partial": man["spec"]["how"]}
        return res
    finally:
        if tpl:
            tpl.cleanup()


def run_vectors(case):
    _k, seed, variant, tier = case
    res = dict(key="vectors-" + variant, violations=[], counters={}, nontrivial=False)
    ref = json.load(open(refvec.PATH))
    rep = {"case": list(case)}
    n = 0
    try:
        obs = refvec.observe(variant)
    except Exception as ex:
        res["violations"].append(("vector-harness-fails", "%s build: %s" % (variant, str(ex)[-1500:]), rep))
        return res
    for key, v in obs["hash"].items():
        kind, s = key.split(":")
        r_ = ref["hash"][key]
        n += v["n"]
        if v["sha256"] != r_["sha256"] or v["n"] != r_["n"]:
            # locate the first differing length with the frozen sources
            kname = {"1": "murmur3", "2": "spooky2"}[kind]
            base = cmdmon.base_stream(int(s))
            sd = cmdmon.seed_bytes(int(s))
            first = None
            for line in v["lines"]:
                _h, L, hx = line.split()
                if refhash.digest(kname, sd, base[:int(L)]).hex() != hx:
                    first = (int(L), hx, refhash.digest(kname, sd, base[:int(L)]).hex())
                    break
            res["violations"].append(("digest-differs-from-reference:" + kname, "%s seed %s (%s build): first differing length %s" % (kname, s, variant, first), rep))
    crc_now = hashlib.sha256("\n".join(" ".join(l.split()[:3] + l.split()[4:]) for l in obs["crc"]["lines"]).encode()).hexdigest()
    n += obs["crc"]["n"]
    if crc_now != ref["crc"]["sha256"]:
        res["violations"].append(("crc32c-differs-from-reference", "crc32c_gen/crc32c vectors differ (%s build)" % variant, rep))
    b7 = cmdmon.base_stream(7)
    for l in obs["crc"]["lines"]:
        f = l.split()
        L = int(f[1])
        if f[3] != "-" and f[3] != f[2]:
            res["violations"].append(("crc32c-x86-differs-from-table", "length %d: %s vs %s" % (L, f[3], f[2]), rep))
            break
        if int(f[2], 16) != refhash.crc32c(b7[:L], 0x12345678):
            res["violations"].append(("crc32c-differs-from-reference", "length %d (%s build)" % (L, variant), rep))
            break
    for key, lines in obs["parity"].items():
        n += len(lines)
        if lines != ref["parity"].get(key):
            res["violations"].append(("parity-vector-differs-from-reference", "geometry nd:np:z:seed=%s (%s build): %s vs stored %s" % (key, variant, lines[:1], (ref["parity"].get(key) or [])[:1]), rep))
            break
    res["counters"]["vector_values"] = n
    res["nontrivial"] = True
    res["n"] = n
    res["sample"] = {"variant": variant, "hash_sets": len(obs["hash"]), "parity_vectors": len(obs["parity"]), "crc_lengths": obs["crc"]["n"]}
    return res


def run_contents(case):
    """Content files written by the reference version for constructed states with boundary values: the tree under test
    must load each, print what the reference printed, and write it back bit for bit (recorded parity paths aside)."""
    from .. import refcnt
    from .. import content as cnt
    _k, seed, shard, nshards, variant = case
    res = dict(key="contents-%d-%s" % (shard, variant), violations=[], counters={}, nontrivial=False)
    vecs = [v for i, v in enumerate(refcnt.load()) if i % nshards == shard]
    n = 0
    for v in vecs:
        import base64
        a = A.Array(A.scratch_root("c16c"), **v["acfg"])
        try:
            data = base64.b64decode(v["content"])
            for p in a.cpaths():
                with open(p, "wb") as f:
                    f.write(data)
            rep = {"case": list(case), "vector": v["idx"], "cfg": v["acfg"]}
            label = "reference-written content #%d (%d bytes)" % (v["idx"], len(data))
            # list/status through the variant under test
            from . import c10
            r1, files, links = c10.list_dump(a, variant)
            r2, blocks, summ = c10.status_dump(a, variant)
            for s_ in r1.san + r2.san:
                res["violations"].append(("sanitizer:" + A.san_key(s_), "%s: %s" % (label, s_[:2000]), rep))
            if r1.rc != 0 or r2.rc != 0:
                res["violations"].append(("reference-content-does-not-load", "%s: list rc=%s status rc=%s %s" %
                                          (label, r1.rc, r2.rc, (r1.err + r2.err)[-300:].decode("latin-1")), rep))
                continue
            got = (r1.rc, r2.rc,
                   [[base64.b64encode(x).decode() if isinstance(x, bytes) else x for x in f] for f in files],
                   [[base64.b64encode(x).decode() for x in l] for l in links],
                   {str(k): list(v_) for k, v_ in sorted(blocks.items())}, summ)
            want = tuple(v["dumps"])
            if json.loads(json.dumps(got)) != json.loads(json.dumps(want)):
                which = [nm for nm, g, w in zip(("list-rc", "status-rc", "files", "links", "blocks", "summary"), json.loads(json.dumps(got)), want) if g != w]
                res["violations"].append(("reference-content-read-differently", "%s: %s differ from what the reference version printed" % (label, which), rep))
                continue
            r = a.cmd("test-rewrite", variant=variant, shim={"time": v["now"] + 100, "log": False})
            if r.rc != 0:
                res["violations"].append(("reference-content-rewrite-fails", "%s: test-rewrite rc=%s" % (label, r.rc), rep))
                continue
            now = open(a.cpaths()[0], "rb").read()
            try:
                same = refcnt.normalised(now) == refcnt.normalised(data)
            except cnt.DecodeError as ex:
                same = False
            if not same:
                res["violations"].append(("content-encoding-not-stable", "%s: the tree under test writes this state with other bytes (%d -> %d bytes)" %
                                          (label, len(data), len(now)), rep))
            n += 1
        finally:
            a.cleanup()
    res["counters"]["reference_contents_loaded"] = n
    res["nontrivial"] = n > 0
    res["n"] = n
    return res


def dispatch(case):
    if case[0] == "contents":
        return run_contents(case)
    return run_array(case) if case[0] == "array" else run_vectors(case)


def main(tier, seed, replay, jobs, scale):
    run = evidence.Run("C16", tier, seed, "exploration", RULE)
    names = refarr.names()
    if replay:
        cases = [tuple(json.load(open(replay))["replay"]["case"])]
    else:
        cases = [("array", seed, n, tier) for n in names]
        cases += [("vectors", seed, v, tier) for v in (["plain", "asan-c"] if tier == "quick" else ["plain", "asan-c", "asan", "plain-c"])]
        cases += [("contents", seed, sh, 4, v) for sh in range(4) for v in (["plain"] if tier == "quick" else ["plain", "asan"])]
    results = list(par.run_cases(dispatch, cases, jobs))
    par.absorb(run, results)
    run.evaluations = sum(r.get("n", 0) for _c, r in results)
    for c_, r in results:
        for i in range(min(r.get("n", 0), 50)):
            run.nontrivial.add("%s-%d" % (r.get("key"), i))
    run.extra["reference_arrays"] = names
    run.assumptions += ["reference material was generated once from the pristine pinned tree (commit e695936) before any fix commit and is vendored under ref/",
                        "each run decides the tree it is given ('all future versions' cannot be quantified at run time)"]
    if not names:
        run.inconc("no reference arrays")
    return run.finish(min_eval=20, min_nontrivial=10)
