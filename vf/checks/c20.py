"""C20 Reports and derived views reflect the recorded state faithfully."""
import os
import random
import re

from .. import arr as A
from .. import content as cnt
from .. import evidence, par, scen
from ..content import BLK

RULE = ("arrays with hostile names (space, newline, colon, backslash, quotes, glob characters, non-UTF-8 bytes, names that look like log "
        "tags), duplicate groups of any size across disks, zero sub-second time-stamps, pre-existing pool contents and an optional "
        "share prefix. After sync: list -l tags and list stdout (shell escaping inverted) are compared with the independently decoded "
        "content; every log line of list/dup/status must parse as one tag and the number of file:/link_:/block:/dup:/zerosubsecond: "
        "lines must equal the decoded counts (forged-line test); dup pairs must induce exactly the content-equality partition of the "
        "non-empty synced files (hash size 16, no migration); status zerosubsecond tags must name exactly the zero-nanosecond files; "
        "after pool the pool dir must hold exactly one resolving symlink per recorded file/link name, stale links and empty dirs "
        "gone, foreign regular files kept. dup on arrays left by an interrupted sync (twin files agreeing in their synced leading blocks, differing in the pending rest): no file with a pending block in any pair, paired files have equal bytes. distinct = (array, view).")

LOOKALIKES = [b"x\nblock:0:1:used::bad:", b"file:d1:forged:1:2:3:4", b"y\ndup:d1:a:d2:b:1: dup", b"z\nsummary:exit:ok",
              b"a:b", b"c\\d", b"e\\nf", b"g\rh", b"i j", b" lead", b"trail ", b"k\tl", b"m'n", b'o"p', b"q*r", b"s?t", b"u[v]",
              b"\xff\xfe", b"w\xc3\xa9",
              # bytes that equal an escaped character in their low 7 bits (0x0A 0x0D ':' '\\' with the top bit set), next to their
              # ASCII twins: they must come out verbatim and never collide
              b"a\xbab", b"x\x8ay", b"x\x8dy", b"x\xdcy", b"caf\xc3\xba", b"x\ny", b"x\\y", b"link_symlink:d1:x:y", b"n\nzerosubsecond:d1:forged: ", b"=", b"a = b", b"-> x", b"a -> b"]


def _unmatched(res):
    from .. import findings
    return len([v for v in res["violations"] if findings.match("C20", v[0]) is None])


def unesc_shell(b):
    out = bytearray()
    i = 0
    while i < len(b):
        if b[i] == 0x5C and i + 1 < len(b):
            out.append(b[i + 1])
            i += 2
        else:
            out.append(b[i])
            i += 1
    return bytes(out)


def split_unescaped(b, sep):
    """split on sep occurrences that are not inside a backslash escape"""
    parts = []
    cur = bytearray()
    i = 0
    while i < len(b):
        if b[i] == 0x5C and i + 1 < len(b):
            cur += b[i:i + 2]
            i += 2
        elif b.startswith(sep, i):
            parts.append(bytes(cur))
            cur = bytearray()
            i += len(sep)
        else:
            cur.append(b[i])
            i += 1
    parts.append(bytes(cur))
    return parts


LIST_LINE = re.compile(rb"^ *(\d+) (\d{4}/\d\d/\d\d \d\d:\d\d) (.*)$", re.S)
LINK_LINE = re.compile(rb"^ *(hardlink|symlink) +(.*)$", re.S)
DUP_LINE = re.compile(rb"^ *(\d+) (.*)$", re.S)


def pool_changes(fs, a, rng):
    """File-system changes between two pool runs; returns counts per kind."""
    n = dict(removed=0, moved_file=0, moved_link=0, file_to_link=0, retargeted=0)
    files = [x for x in fs.files() if not fs.links_of(x[0], x[1])]
    rng.shuffle(files)
    for (d, s) in files[:2]:
        fs.remove(d, s)
        n["removed"] += 1
    others = lambda d: [x for x in a.disks if x != d]
    for (d, s) in files[2:4]:
        if others(d):
            d2 = rng.choice(others(d))
            if scen._clear_path(fs, d2, s):
                fs.rename(d, s, d2, s)
                n["moved_file"] += 1
    for (d, s) in files[4:5]:
        if others(d):
            d2 = rng.choice(others(d))
            if scen._clear_path(fs, d2, s):
                fs.remove(d, s)
                fs.symlink(d2, s, b"../some/target%d" % rng.randint(0, 9))
                n["file_to_link"] += 1
    syms = [(d, s) for d in a.disks for s, e in fs.entries[d].items() if e[0] == "symlink"]
    rng.shuffle(syms)
    for (d, s) in syms[:2]:
        tgt = fs.entries[d][s][1]
        if others(d) and rng.random() < 0.7:
            d2 = rng.choice(others(d))
            if scen._clear_path(fs, d2, s):
                fs.remove(d, s)
                fs.symlink(d2, s, tgt)
                n["moved_link"] += 1
        else:
            fs.remove(d, s)
            fs.symlink(d, s, tgt + b".new")
            n["retargeted"] += 1
    return n


def pool_name_conflict(c):
    """Across the disks one name is a file or link and, on another disk, also a directory holding files: the merged view of
    the pool cannot hold both (a symbolic link and a directory of the same name); nothing is promised for such arrays."""
    names = {f.sub for f in c.files} | {l["sub"] for l in c.links}
    for n_ in names:
        parts = n_.split(b"/")
        for k_ in range(1, len(parts)):
            if b"/".join(parts[:k_]) in names:
                return True
    return False


def judge_pool(a, poolb, c, use_share, share, V, rep, label):
    """The pool dir holds exactly one symlink per recorded file/link name, resolving to a recorded entry of that name;
    foreign regular files kept, no empty dirs. Returns the number of links found."""
    want = {}
    for f in c.files:
        want.setdefault(f.sub, set()).add(c.disk_name(f.disk))
    for l in c.links:
        want.setdefault(l["sub"], set()).add(c.disk_name(l["disk"]))
    found = {}
    foreign = []
    emptydirs = []
    for root, dirs, files in os.walk(poolb):
        rel = root[len(poolb):].lstrip(b"/")
        if not dirs and not files and rel:
            emptydirs.append(rel)
        for n in files + [d_ for d_ in dirs if os.path.islink(os.path.join(root, d_))]:
            p = os.path.join(root, n)
            r_ = rel + b"/" + n if rel else n
            if os.path.islink(p):
                found[r_] = os.readlink(p)
            else:
                foreign.append(r_)
    if set(found) != set(want):
        V.append(("pool-links-differ", "%s: pool has extra links %s, lacks recorded names %s" %
                  (label, evidence.jsonable(sorted(set(found) - set(want))[:3]), evidence.jsonable(sorted(set(want) - set(found))[:3])), rep))
        return len(found)
    for sub, tgt in found.items():
        ok = False
        for dn in want[sub]:
            di = a.disk_names.index(dn.decode())
            real = os.path.join(os.fsencode(a.ddir(di)), sub)
            exp1 = os.path.join(os.fsencode(share), dn, sub) if use_share else real
            if tgt == exp1:
                # must resolve to the recorded entry (through the share dir, but not through the final component, which
                # may itself be a symlink)
                try:
                    rp1 = os.path.realpath(os.path.join(os.path.dirname(os.path.join(poolb, sub)), tgt)) if not tgt.startswith(b"/") else tgt
                    parent_real = os.path.realpath(os.path.dirname(rp1))
                    resolved = os.path.join(parent_real, os.path.basename(rp1))
                    if resolved == os.path.join(os.path.realpath(os.path.dirname(real)), os.path.basename(real)) and os.path.lexists(resolved):
                        ok = True
                except OSError:
                    pass
        if not ok:
            V.append(("pool-link-does-not-resolve", "%s: pool link %r -> %r does not resolve to the recorded entry (recorded on %s)" %
                      (label, sub, tgt, evidence.jsonable(sorted(want[sub]))), rep))
            break
    if foreign != [b"foreign-regular-file"]:
        V.append(("pool-foreign-files-not-kept", "%s: regular files in the pool dir after pool: %s" % (label, evidence.jsonable(foreign)), rep))
    if emptydirs:
        V.append(("pool-empty-dirs-left", "%s: empty dirs left in the pool: %s" % (label, evidence.jsonable(emptydirs[:3])), rep))
    return len(found)


def run_case(case):
    seed, idx, tier = case
    rng = random.Random("c20-%d-%d" % (seed, idx))
    variant = "asan" if idx % 4 == 3 else "plain"
    res = dict(key=None, violations=[], counters={}, nontrivial=False)
    cfg = scen.gen_config(rng, max_nd=4, max_lev=2, allow_splits=False)
    cfg["pool"] = True
    use_share = idx % 3 == 1
    a, fs = scen.make(rng, cfg, "c20")
    try:
        share = os.path.join(a.root, "share")
        if use_share:
            os.makedirs(share)
            for d in a.disks:
                os.symlink(a.ddir(d), os.path.join(share, a.disk_names[d]))
            a.extra_conf.append("share %s" % share)
            a.write_conf()
        A.populate(fs, rng, nfiles=rng.randint(3, 10), hostile=0.35)
        # hostile and tag-lookalike names
        for nm in rng.sample(LOOKALIKES, rng.randint(3, 8)):
            d = rng.choice(a.disks)
            if scen._clear_path(fs, d, nm):
                zero = rng.random() < 0.5
                fs.write(d, nm, A.gen_bytes(rng, rng.randint(1, 3000)), mtime_ns=fs.clock.next(zero_nsec=zero))
        # duplicate groups of several sizes, across disks and within
        for g in range(rng.randint(1, 3)):
            data = A.gen_bytes(rng, rng.choice([1, 500, a.bs, a.bs + 1, 3 * a.bs]), "rand")
            for k in range(rng.randint(2, 4)):
                d = rng.choice(a.disks)
                nm = b"dup%d_%d_" % (g, k) + A.gen_name(rng, 0.3, 5)
                if scen._clear_path(fs, d, nm):
                    fs.write(d, nm, data)
        # same length, different content (must not be dups); an empty pair (never reported)
        fs.write(a.disks[0], b"nodup-a", A.gen_bytes(rng, 777, "rand"))
        fs.write(a.disks[-1], b"nodup-b", A.gen_bytes(rng, 777, "rand"))
        # same size, same multiset of blocks, other order; and files differing only in a block that occurs an even number of
        # times: never duplicates
        bx, by, bz, bw = (A.gen_bytes(rng, a.bs, "rand") for _ in range(4))
        tail = A.gen_bytes(rng, rng.randint(0, a.bs - 1), "rand")
        fs.write(a.disks[0], b"perm-a", bx + by + tail)
        fs.write(a.disks[-1], b"perm-b", by + bx + tail)
        fs.write(a.disks[0], b"rep-a", bx + bz + bz)
        fs.write(a.disks[-1], b"rep-b", bx + bw + bw)
        fs.write(a.disks[0], b"empty-a", b"")
        fs.write(a.disks[-1], b"empty-b", b"")
        # pre-existing pool contents
        pool = os.path.join(a.root, "pool")
        os.symlink("/nonexistent/stale", os.path.join(pool, "stale-link"))
        os.makedirs(os.path.join(pool, "empty/dir/chain"))
        with open(os.path.join(pool, "foreign-regular-file"), "wb") as f:
            f.write(b"mine")
        r = a.cmd("sync", variant=variant)
        if r.rc != 0:
            raise scen.CaseError("sync failed: %s" % r.err[-200:])
        c = a.load_content()
        rep = {"case": list(case), "cfg": cfg, "share": use_share}
        V = res["violations"]
        rec_files = [(c.disk_name(f.disk), f.sub, f) for f in c.files]
        rec_links = [(c.disk_name(l["disk"]), l["sub"], l) for l in c.links]
        res["counters"]["names"] = len(rec_files) + len(rec_links)
        res["counters"]["names_with_newline"] = sum(1 for x in rec_files + rec_links if b"\n" in x[1])

        # ---------------------------------------------------------------- list
        rl = a.cmd("list", variant=variant)
        for s_ in rl.san:
            V.append(("sanitizer:" + A.san_key(s_), s_[:2000], rep))
        raw_lines = [l for l in rl.log.split(b"\n") if l]
        nfile = sum(1 for l in raw_lines if l.startswith(b"file:"))
        nlink = sum(1 for l in raw_lines if l.startswith(b"link_"))
        if nfile != len(rec_files) or nlink != len(rec_links):
            V.append(("log-line-count-differs:list", "list -l has %d file: and %d link_ lines, the content file records %d files and %d links (forged or split lines)" %
                      (nfile, nlink, len(rec_files), len(rec_links)), rep))
        got = sorted((t[1], t[2]) for t in rl.tag("file") if len(t) >= 7)
        if got != sorted((x[0], x[1]) for x in rec_files):
            V.append(("list-tags-differ-from-content", "file tags %s vs recorded %s" % (evidence.jsonable(got[:3]), evidence.jsonable(sorted((x[0], x[1]) for x in rec_files)[:3])), rep))
        # stdout: invert the shell escaping
        out_names = []
        out_links = []
        bad_lines = []
        for line in rl.out.split(b"\n"):
            if not line.strip() or line.startswith((b"Loading", b"Listing", b"Using", b"Self test")):
                continue
            m = LIST_LINE.match(line)
            if m:
                out_names.append((int(m.group(1)), unesc_shell(m.group(3))))
                continue
            m = LINK_LINE.match(line)
            if m:
                parts = split_unescaped(m.group(2), b" -> ")
                if len(parts) == 2:
                    out_links.append((m.group(1), unesc_shell(parts[0]), unesc_shell(parts[1])))
                    continue
            if re.match(rb"^ *\d+ (files|links)", line):
                continue
            bad_lines.append(line)
        exp_names = sorted((f.size, sub) for (_d, sub, f) in rec_files)
        exp_links = sorted((l["kind"].encode(), sub, l["linkto"]) for (_d, sub, l) in rec_links)
        if sorted(out_names) != exp_names or sorted(out_links) != exp_links or bad_lines:
            nl = any(b"\n" in x[1] for x in rec_files + rec_links) or any(b"\n" in l["linkto"] for (_d, _s, l) in rec_links)
            key = "stdout/newline-in-name:list" if nl else "stdout-names-not-recoverable:list"
            V.append((key, "list stdout does not give back the recorded names: unparsable lines %s; missing %s" %
                      (evidence.jsonable(bad_lines[:2]), evidence.jsonable([x for x in exp_names if x not in out_names][:2])), rep))
        res["counters"]["views"] = res["counters"].get("views", 0) + 1

        # ---------------------------------------------------------------- status
        rs = a.cmd("status", "-G", variant=variant)
        raw_lines = [l for l in rs.log.split(b"\n") if l]
        nblock = sum(1 for l in raw_lines if l.startswith((b"block:", b"block_noinfo:")))
        if nblock != c.blockmax:
            V.append(("log-line-count-differs:status", "status -G -l has %d block lines for %d stripes (forged or split lines)" % (nblock, c.blockmax), rep))
        zexp = sorted((dn, sub) for (dn, sub, f) in rec_files if f.mtime_nsec == 0)
        zlines = [l for l in raw_lines if l.startswith(b"zerosubsecond:")]
        zgot = sorted((t[1], t[2]) for t in rs.tag("zerosubsecond") if len(t) >= 3)
        if len(zlines) != len(zexp) or zgot != zexp:
            V.append(("status-zerosubsecond-wrong", "zerosubsecond lines %d, tags %s, expected %s" % (len(zlines), evidence.jsonable(zgot[:4]), evidence.jsonable(zexp[:4])), rep))
        badset = {int(t[1]) for t in rs.tag("block") if len(t) >= 6 and t[5] == b"bad"}
        if badset:
            V.append(("status-shows-bad-on-healthy-array", "bad blocks %s listed on a freshly synced array" % sorted(badset)[:5], rep))
        res["counters"]["views"] += 1

        # ---------------------------------------------------------------- dup
        if c.hashsize == 16 and c.prevhash is None:
            rd = a.cmd("dup", variant=variant)
            raw_lines = [l for l in rd.log.split(b"\n") if l]
            pairs = [(t[1], t[2], t[3], t[4]) for t in rd.tag("dup") if len(t) >= 6]
            ndl = sum(1 for l in raw_lines if l.startswith(b"dup:"))
            # expected partition by content (non-empty files), content from the model
            name2idx = {n.encode(): i for i, n in enumerate(a.disk_names)}
            bycontent = {}
            for (dn, sub, f) in rec_files:
                if f.size == 0:
                    continue
                e = fs.entries[name2idx[dn]].get(sub)
                if e is not None and e[0] == "hardlink":
                    # the tool may record any name of the inode as the file
                    e = fs.entries[name2idx[dn]].get(e[1])
                if e is None or e[0] != "file":
                    continue
                bycontent.setdefault(e[1], set()).add((dn, sub))
            exp_groups = sorted(sorted(g) for g in bycontent.values() if len(g) >= 2)
            parent = {}

            def find(x):
                while parent.get(x, x) != x:
                    x = parent[x]
                return x
            for (d1, s1, d2, s2) in pairs:
                parent.setdefault((d1, s1), (d1, s1))
                parent.setdefault((d2, s2), (d2, s2))
                parent[find((d1, s1))] = find((d2, s2))
            groups = {}
            for x in parent:
                groups.setdefault(find(x), set()).add(x)
            got_groups = sorted(sorted(g) for g in groups.values())
            exp_pairs = sum(len(g) - 1 for g in exp_groups)
            if got_groups != exp_groups:
                V.append(("dup-groups-differ-from-content-equality", "dup reports %s, files with equal bytes are %s" % (evidence.jsonable(got_groups[:3]), evidence.jsonable(exp_groups[:3])), rep))
            elif ndl != exp_pairs:
                V.append(("log-line-count-differs:dup", "dup -l has %d dup: lines for %d expected pairs" % (ndl, exp_pairs), rep))
            want_rc = 0
            dup_lines = []
            for line in rd.out.split(b"\n"):
                m = DUP_LINE.match(line)
                if m and b" = " in m.group(2):
                    parts = split_unescaped(m.group(2), b" = ")
                    if len(parts) == 2:
                        dup_lines.append((unesc_shell(parts[0]), unesc_shell(parts[1])))
            exp_out = sorted((s1, s2) for (_d1, s1, _d2, s2) in pairs)
            if sorted(dup_lines) != exp_out:
                nl = any(b"\n" in s for p_ in pairs for s in (p_[1], p_[3]))
                V.append(("stdout/newline-in-name:dup" if nl else "stdout-names-not-recoverable:dup",
                          "dup stdout pairs %s vs tags %s" % (evidence.jsonable(sorted(dup_lines)[:2]), evidence.jsonable(exp_out[:2])), rep))
            res["counters"]["dup_groups"] = res["counters"].get("dup_groups", 0) + len(exp_groups)
            res["counters"]["views"] += 1

        # ---------------------------------------------------------------- pool
        rp = a.cmd("pool", variant=variant)
        if pool_name_conflict(c):
            res["counters"]["pool_not_judged_name_conflict_across_disks"] = 1
        elif rp.rc != 0:
            V.append(("pool-fails", "pool rc=%s %s" % (rp.rc, rp.err[-200:].decode("latin-1")), rep))
        else:
            poolb = os.fsencode(pool)
            n = judge_pool(a, poolb, c, use_share, share, V, rep, "first pool run")
            res["counters"]["pool_links"] = res["counters"].get("pool_links", 0) + n
            res["counters"]["views"] += 1
            # later runs after changes: stale links must go, and a name whose entry now lives elsewhere (moved to another
            # disk, file replaced by a link on another disk, link retargeted) must get a link resolving to the new entry
            nv0 = len(V)
            for rnd in range(2):
                nch = pool_changes(fs, a, rng)
                r2 = a.cmd("sync", "-E", "-Z", variant=variant)
                r3 = a.cmd("pool", variant=variant)
                try:
                    if r2.rc == 0 and pool_name_conflict(a.load_content()):
                        res["counters"]["pool_not_judged_name_conflict_across_disks"] = 1
                        break
                except Exception:
                    pass
                if r2.rc != 0 or r3.rc != 0:
                    V.append(("sync-or-pool-fails-after-changes", "sync rc=%s pool rc=%s %s" % (r2.rc, r3.rc, (r2.err + r3.err)[-300:].decode("latin-1")), rep))
                    break
                c2 = a.load_content()
                n = judge_pool(a, poolb, c2, use_share, share, V, rep, "pool run %d after %s" % (rnd + 2, nch))
                res["counters"]["pool_links"] += n
                res["counters"]["pool_reruns"] = res["counters"].get("pool_reruns", 0) + 1
                for k_, v_ in nch.items():
                    res["counters"]["poolchg_" + k_] = res["counters"].get("poolchg_" + k_, 0) + v_
                if len(V) > nv0:
                    break
        # ---------------------------------------------------------------- status / list on a partially synced array
        # (pending deletions, additions and changes left behind by partial or killed syncs: the per-stripe lines and the
        # counters must still be exactly what the recorded state says)
        from .c10 import expect_from_content, list_dump, status_dump
        nv1 = len(V)
        for rnd in range(2):
            scen.mutate(fs, rng, rng.randint(3, 7), hostile=0.2, ops=["delete", "delete", "create", "overwrite", "append", "truncate", "move_disk"], maxblocks=5)
            sargs = rng.choice([["-B", str(rng.randint(1, 3))], ["-S", str(rng.randint(0, 3)), "-B", str(rng.randint(1, 3))], ["--test-kill-after-sync"], ["-B", "1"]])
            rs = a.cmd("sync", "-E", "-Z", *sargs, variant=variant)
            try:
                c3 = a.load_content()
            except Exception:
                break
            efiles, elinks, eblocks, esumm = expect_from_content(c3)
            r2, blocks, summ = status_dump(a, variant)
            r1, files, links = list_dump(a, variant)
            lab = "after sync %s (rc %s)" % (" ".join(sargs), rs.rc)
            for s_ in r1.san + r2.san:
                V.append(("sanitizer:" + A.san_key(s_), s_[:2000], rep))
            if r1.rc != 0 or r2.rc != 0:
                V.append(("status-or-list-fails", "%s: list rc=%s status rc=%s" % (lab, r1.rc, r2.rc), rep))
                break
            if blocks != eblocks:
                dd = [(k, blocks.get(k), eblocks.get(k)) for k in sorted(set(blocks) | set(eblocks)) if blocks.get(k) != eblocks.get(k)][:3]
                V.append(("status-differs-from-recorded-state:blocks", "%s: (stripe, printed (time, used, unsynced, bad, rehash), recorded) %s" % (lab, dd), rep))
            if summ != esumm:
                V.append(("status-differs-from-recorded-state:summary", "%s: printed %s, recorded state gives %s" % (lab, summ, esumm), rep))
            if files != efiles or links != elinks:
                V.append(("list-differs-from-recorded-state", "%s: %s" % (lab, evidence.jsonable(([x for x in files if x not in efiles] + [x for x in efiles if x not in files])[:2])), rep))
            res["counters"]["unsynced_states_viewed"] = res["counters"].get("unsynced_states_viewed", 0) + 1
            res["counters"]["unsynced_stripes_seen"] = res["counters"].get("unsynced_stripes_seen", 0) + esumm.get("has_unsynced", 0)
            res["counters"]["views"] += 1
            if len(V) > nv1:
                break
        # ---------------------------------------------------------------- dup on a partially synced array
        # "two non-empty SYNCED files": a file with a block whose hash is not the hash of its present data (pending blocks
        # left by an interrupted sync) is never part of a pair; two files that agree in their synced leading blocks and
        # differ in the pending rest are the hostile input
        if len(V) == nv1 and len(a.disks) >= 2:
            try:
                c4 = a.load_content()
            except Exception:
                c4 = None
            if c4 is not None and c4.hashsize == 16 and c4.prevhash is None:
                npre = rng.randint(1, 2)
                pre = A.gen_bytes(rng, npre * a.bs, "rand")
                nrest = rng.randint(1, 3) * a.bs - rng.choice([0, 0, 7])
                twins = [(a.disks[0], b"twin-pending-a", pre + A.gen_bytes(rng, nrest, "rand")), (a.disks[-1], b"twin-pending-b", pre + A.gen_bytes(rng, nrest, "rand"))]
                same = A.gen_bytes(rng, (npre + 1) * a.bs, "rand")
                twins += [(a.disks[0], b"same-pending-a", same), (a.disks[-1], b"same-pending-b", same)]
                for (d_, nm_, data_) in twins:
                    if scen._clear_path(fs, d_, nm_):
                        fs.write(d_, nm_, data_)
                a.cmd("sync", "-E", "-Z", "--test-kill-after-sync", variant=variant)
                try:
                    c4 = a.load_content()
                    n2i4 = {n.encode(): i for i, n in enumerate(a.disk_names)}
                    for (d_, nm_, _x) in twins[:2] + twins[2:3]:
                        rec_ = [f for f in c4.files if f.sub == nm_ and n2i4[c4.disk_name(f.disk)] == d_]
                        if rec_ and rec_[0].blocks:
                            for bi_ in range(npre):
                                a.cmd("sync", "-E", "-Z", "-S", str(rec_[0].blocks[bi_][0]), "-B", "1", variant=variant)
                    c4 = a.load_content()
                except Exception:
                    c4 = None
            if c4 is not None and c4.hashsize == 16 and c4.prevhash is None:
                n2i4 = {n.encode(): i for i, n in enumerate(a.disk_names)}
                rd4 = a.cmd("dup", variant=variant)
                for s_ in rd4.san:
                    V.append(("sanitizer:" + A.san_key(s_), s_[:2000], rep))
                pairs4 = [((t[1], t[2]), (t[3], t[4])) for t in rd4.tag("dup") if len(t) >= 6]
                recs4 = {(c4.disk_name(f.disk), f.sub): f for f in c4.files}
                pending4 = {k_ for k_, f in recs4.items() if any(b[1] == cnt.CHG for b in f.blocks)}
                def bytes4(k_):
                    f = recs4.get(k_)
                    if f is None:
                        return None
                    return fs.lookup(n2i4[k_[0]], f.sub, f.size, f.mtime_sec, f.mtime_nsec if f.mtime_nsec >= 0 else 0)
                for (x_, y_) in pairs4:
                    if x_ in pending4 or y_ in pending4:
                        V.append(("dup-reports-file-with-pending-blocks", "after an interrupted sync dup pairs %r and %r although %s still has blocks recorded as changed" %
                                  (x_, y_, [z for z in (x_, y_) if z in pending4]), rep))
                        break
                    bx_, by_ = bytes4(x_), bytes4(y_)
                    if bx_ is not None and by_ is not None and bx_ != by_:
                        V.append(("dup-reports-files-with-different-content", "after an interrupted sync dup pairs %r and %r (different bytes)" % (x_, y_), rep))
                        break
                res["counters"]["dup_runs_on_partially_synced_arrays"] = 1
                res["counters"]["files_with_pending_blocks_at_dup"] = len(pending4)
                res["counters"]["views"] += 1
        res["nontrivial"] = True
        res["nviews"] = res["counters"].get("views", 0)
        res["key"] = "%s|%d" % (sorted((k, str(v)) for k, v in cfg.items()), idx)
        res["sample"] = {"cfg": cfg, "share": use_share, "names": evidence.jsonable([x[1] for x in rec_files][:6])}
        return res
    finally:
        a.cleanup()


def main(tier, seed, replay, jobs, scale):
    run = evidence.Run("C20", tier, seed, "exploration", RULE)
    if replay:
        import json
        cases = [tuple(json.load(open(replay))["replay"]["case"])]
    else:
        n = int((200 if tier == "quick" else 12000) * scale)
        cases = [(seed, i, tier) for i in range(n)]
    results = list(par.run_cases(run_case, cases, jobs))
    par.absorb(run, results)
    n = sum(r.get("nviews", 0) for _c, r in results)
    run.evaluations = n
    run.nontrivial = set(range(n))
    run.assumptions += ["dup is asserted only with hash size 16 and outside a hash migration",
                        "when the same name is recorded on two disks the pool holds one link resolving to one of them"]
    return run.finish(min_eval=20, min_nontrivial=20)
