"""C03 Any erasure pattern within the parity count is exactly recoverable."""
from concurrent.futures import ThreadPoolExecutor

from .. import evidence, raidmon

RULE = ("stripes are generated with the *reference* parity (definition of GF(2^8)/0x11d), failed blocks overwritten with "
        "garbage, then raid_rec (dispatcher), raid_data with every ordered choice of surviving parities (all other "
        "parities garbage) and every exported raid_rec{1,2,X}_<variant> directly; afterwards all nd+np blocks, canaries, "
        "pointer and index vectors are compared. nd 1..8 (thorough 1..10) x np 1..6 and z: ALL failure sets and parity "
        "choices; larger nd: sampled sets biased to columns >=12, >=32 and the last one. raid_check: true set accepted, "
        "every candidate leaving one corrupted block unlisted rejected; raid_scan returns exactly the set. Minors: every "
        "square sub-matrix of the exported gfcauchy (6x251) and gfvandermonde (3x251) by DFS with incremental elimination "
        "in the harness's own field arithmetic. distinct_nontrivial counts failure sets exercised + minor shards.")

STRIDE = 64


def main(tier, seed, replay, jobs, scale):
    run = evidence.Run("C03", tier, seed, "exploration", RULE)
    tasks = []
    variants = ["plain", "asan-c"] if tier == "quick" else ["plain", "asan-c", "asan"]
    for v in variants:
        tasks.append((v, ["rec", seed, tier if v == "plain" else "quick"], False))
    # minors
    full_orders = [1, 2, 3, 4] if tier == "quick" else [1, 2, 3, 4, 5, 6]
    for z in (0, 1):
        for o in full_orders:
            if z and o > 3:
                continue
            if o >= 4:
                for off in range(STRIDE):
                    tasks.append(("plain", ["minors", z, o, STRIDE, off], False))
            else:
                tasks.append(("plain", ["minors", z, o, 1, 0], False))
    if tier == "quick":
        tasks.append(("plain", ["minors-sampled", 0, 5, 3000000, seed], False))
        tasks.append(("plain", ["minors-sampled", 0, 6, 3000000, seed], False))
    else:
        tasks.append(("plain", ["rec", seed, "quick"], True))  # memcheck on the asm decoders

    # heavy shards first
    tasks.sort(key=lambda t: -(t[1][2] if t[1][0] == "minors" else 10))

    def work(t):
        v, args, vg = t
        return t, raidmon.run(v, args, timeout=6 * 3600, valgrind=vg)

    minors = {}
    expected_minors = {}
    with ThreadPoolExecutor(max_workers=jobs) as ex:
        for (v, args, vg), r in ex.map(work, tasks):
            label = "%s:%s%s" % (v, " ".join(str(a) for a in args), ":memcheck" if vg else "")
            if r["timeout"]:
                run.inconc("timeout " + label)
                continue
            for key, detail in r["viol"]:
                run.violation(key, "%s: %s" % (label, detail), {"variant": v, "args": args})
            if (not r["done"] or r["rc"] != 0) and not r["viol"]:
                run.violation("harness-abort:" + args[0], "%s rc=%s stderr=%s" % (label, r["rc"], r["err"][-1500:]),
                              {"variant": v, "args": args})
            st = r["stats"]
            if args[0] == "rec":
                run.count("kernel_calls", st.get("calls", 0))
                run.count("failure_sets", st.get("sets", 0))
                run.count("exhaustive_sets", st.get("exhaustive_sets", 0))
                run.evaluations += st.get("sets", 0)
                for i in range(min(st.get("sets", 0), 100000)):
                    pass
                run.nontrivial.add(label)
                run.extra.setdefault("rec_runs", []).append({"build": v, "memcheck": vg, "sets": st.get("sets", 0),
                                                              "geometries": st.get("cases", 0)})
            else:
                n = st.get("minors_total", 0)
                run.count("minors_checked", n)
                run.evaluations += 1
                run.nontrivial.add(label)
                if args[0] == "minors":
                    minors[(args[1], args[2])] = minors.get((args[1], args[2]), 0) + n
    import math
    complete = True
    for (z, o), n in sorted(minors.items()):
        nrows = 3 if z else 6
        exp = math.comb(nrows, o) * math.comb(251, o)
        run.extra.setdefault("minors", {})["%s_order%d" % ("z" if z else "cauchy", o)] = {"checked": n, "of": exp}
        if n != exp:
            complete = False
            run.inconc("minor count mismatch for z=%s order=%d: %d of %d" % (z, o, n, exp))
    run.extra["minors_exhaustive_orders"] = full_orders
    if tier == "thorough" and complete:
        run.extra["all_minors_exhaustive"] = True
    run.sample({"nd": 5, "np": 6, "failed": [0, 3, 5, 6, 9, 10], "via": "raid_rec"})
    run.sample({"nd": 251, "np": 4, "data_failed": [12, 200, 250], "parities_used": [0, 2, 3], "via": "raid_recX_avx2"})
    run.sample({"matrix": "gfcauchy", "rows": [0, 2, 5], "columns": [3, 77, 250], "check": "columns independent"})
    run.assumptions += ["raid_scan uniqueness asserted only for whole-block random garbage",
                        "sets of larger geometries are sampled, not enumerated"]
    return run.finish(min_eval=1000, min_nontrivial=5)
