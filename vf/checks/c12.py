"""C12 Commands modify only what they are documented to modify."""
import os
import random
import re

from .. import arr as A
from .. import content as cnt
from .. import evidence, par, scen
from .c01 import build_synced_array

RULE = ("every command x option combination on healthy, unsynced, damaged, partially lost arrays (runs that end in errors included), "
        "observed twice: (1) snapshot (type, size, mtime, inode, sha-256) of data dirs, parity, content, pool and the array root "
        "before/after; (2) strace -f of the real binary reduced to the paths opened for writing / created / renamed / unlinked / "
        "truncated / re-timed / written by fd. Allowed sets: status, diff, list, dup, check*, devices: log and lock file only; scrub: "
        "+ content; sync: + parity + content, never a data disk; fix: data and parity only, each changed data path must be named by a "
        "fixed:/status:recovered|unrecoverable/..._fixed tag, never content; pool: inside the pool dir only; touch: content + only the "
        "sub-second part of time-stamps that were zero on disk. State kind 'unrecoverable': stripes damaged beyond the redundancy, plain fix (leaves NAME.unrecoverable copies), then shuffled restricted / filtered fixes, one range computed to open such a copy without finishing it, copies re-timed before -e/-b. distinct = (array state, command line).")


def _unmatched(res):
    from .. import findings
    return len([v for v in res["violations"] if findings.match("C12", v[0]) is None])


READONLY = {"status", "diff", "list", "dup", "check", "devices"}

CMDS = [
    ("status", []), ("status", ["-G"]), ("diff", []), ("list", []), ("dup", []), ("devices", []),
    ("check", []), ("check", ["-a"]), ("check", ["-f", "*a*"]), ("check", ["-d", "DISK"]), ("check", ["-a", "-d", "DISK"]),
    ("check", ["-S", "RS", "-B", "RB"]), ("check", ["-i", "IMPORT"]),
    ("scrub", []), ("scrub", ["-p", "full"]), ("scrub", ["-p", "bad"]), ("scrub", ["-p", "new"]), ("scrub", ["-p", "50", "-o", "0"]),
    ("sync", []), ("sync", ["-h"]), ("sync", ["-E", "-Z"]), ("sync", ["-F"]), ("sync", ["-R"]), ("sync", ["-S", "RS", "-B", "RB"]),
    ("sync", ["-N"]),
    ("fix", []), ("fix", ["-e"]), ("fix", ["-m"]), ("fix", ["-f", "*a*"]), ("fix", ["-d", "DISK"]), ("fix", ["-d", "parity"]),
    ("fix", ["-m", "-d", "DISK"]), ("fix", ["-S", "RS", "-B", "RB"]), ("fix", ["-S", "0", "-B", "RB"]), ("fix", ["-e", "-S", "RS", "-B", "RB"]),
    ("pool", []), ("touch", []), ("rehash", []),
]

WRITE_RE = re.compile(rb'^\d+\s+(\w+)\((.*)$')
PATHS_RE = re.compile(rb'"((?:[^"\\]|\\.)*)"')
FD_RE = re.compile(rb'^(\d+)<((?:[^>\\]|\\.)*)>')


def unesc_c(b):
    out = bytearray()
    i = 0
    while i < len(b):
        c = b[i]
        if c == 0x5C and i + 1 < len(b):
            d = b[i + 1]
            if d in b"01234567":
                j = i + 1
                v = 0
                n = 0
                while j < len(b) and n < 3 and b[j] in b"01234567":
                    v = v * 8 + (b[j] - 48)
                    j += 1
                    n += 1
                out.append(v & 255)
                i = j
                continue
            m = {ord("n"): 10, ord("t"): 9, ord("r"): 13, ord("v"): 11, ord("f"): 12, ord("\\"): 92, ord('"'): 34, ord("x"): None}
            if d == ord("x"):
                out.append(int(b[i + 2:i + 4], 16))
                i += 4
                continue
            out.append(m.get(d, d))
            i += 2
        else:
            out.append(c)
            i += 1
    return bytes(out)


def strace_mutations(path):
    """Set of (syscall, path) that change the file system, from a strace -f -y log."""
    out = set()
    try:
        data = open(path, "rb").read()
    except FileNotFoundError:
        return None
    for line in data.split(b"\n"):
        m = WRITE_RE.match(line)
        if not m:
            continue
        sc = m.group(1)
        rest = m.group(2)
        if b"= -1 " in rest[-60:] and sc not in (b"write", b"pwrite64"):
            continue
        if sc in (b"openat", b"open", b"creat"):
            if sc == b"creat" or re.search(rb"O_(WRONLY|RDWR|CREAT|TRUNC|APPEND)", rest):
                ps = PATHS_RE.findall(rest)
                if ps:
                    out.add((sc.decode(), unesc_c(ps[0])))
        elif sc in (b"rename", b"renameat", b"renameat2", b"unlink", b"unlinkat", b"mkdir", b"mkdirat", b"rmdir", b"link", b"linkat",
                    b"symlink", b"symlinkat", b"truncate", b"utimes", b"futimesat", b"chmod", b"chown", b"lchown"):
            ps = PATHS_RE.findall(rest)
            if sc in (b"symlink", b"symlinkat", b"link", b"linkat") and ps:
                ps = ps[-1:]  # only the new name is created; the first argument is the target
            for p in ps:
                out.add((sc.decode(), unesc_c(p)))
        elif sc == b"utimensat":
            ps = PATHS_RE.findall(rest)
            if ps:
                out.add(("utimensat", unesc_c(ps[0])))
            else:
                fm = re.match(rb"(\d+)<((?:[^>\\]|\\.)*)>", rest)
                if fm:
                    out.add(("utimensat", unesc_c(fm.group(2))))
        elif sc in (b"write", b"pwrite64", b"ftruncate", b"fallocate", b"fchmod", b"fchown", b"futimens"):
            fm = FD_RE.match(rest)
            if fm and fm.group(2).startswith(b"/"):  # pipes, sockets, anon inodes are not files
                out.add((sc.decode(), unesc_c(fm.group(2))))
    return out


def classify(a, p):
    root = os.fsencode(a.root)
    if not p.startswith(b"/"):
        p = os.path.join(root, p)
    p = os.path.normpath(p)
    for cp in a.cpaths():
        cpb = os.fsencode(cp)
        if p == cpb + b".lock":
            return "lock"
        if p in (cpb, cpb + b".tmp"):
            return "content"
    for d in range(len(a.disk_names)):
        dd = os.fsencode(a.ddir(d))
        if p == dd or p.startswith(dd + b"/"):
            return "data"
    if p.startswith(os.path.join(root, b"par") + b"/"):
        return "parity"
    if p.startswith(os.path.join(root, b"logs") + b"/"):
        return "log"
    if p.startswith(os.path.join(root, b"pool")):
        return "pool"
    if p.startswith(os.path.join(root, b"cnt")):
        return "content-dir"
    if p.startswith(root):
        return "root"
    return "outside"


ALLOWED = {
    "status": {"log", "lock"}, "diff": {"log", "lock"}, "list": {"log", "lock"}, "dup": {"log", "lock"},
    "check": {"log", "lock"}, "devices": {"log", "lock"},
    "scrub": {"log", "lock", "content"},
    "sync": {"log", "lock", "content", "parity"},
    "rehash": {"log", "lock", "content"},
    "fix": {"log", "lock", "data", "parity"},
    "pool": {"log", "lock", "pool"},
    "touch": {"log", "lock", "content", "data"},
}


def cut_range(a, rng):
    """A block count B such that the range 0..B-1 covers the blocks of a recorded-but-missing file and ends inside an
    existing multi-block file of the same disk (that file is opened by a ranged fix but not finished). None if no such B."""
    try:
        c = a.load_content()
    except Exception:
        return None
    cands = []
    n2i = {nm.encode(): i for i, nm in enumerate(a.disk_names)}
    for dn in {c.disk_name(f.disk) for f in c.files}:
        d = n2i[dn]
        fl = [f for f in c.files if c.disk_name(f.disk) == dn and f.blocks]
        missing = [f for f in fl if not os.path.lexists(os.path.join(os.fsencode(a.ddir(d)), f.sub))]
        if not missing:
            continue
        lo = min(f.blocks[0][0] for f in missing)
        for f in fl:
            if f in missing or len(f.blocks) < 2:
                continue
            first, last = f.blocks[0][0], f.blocks[-1][0]
            if last > lo:
                cands.append(rng.randint(max(first, lo) + 1, last))
    return str(rng.choice(cands)) if cands else None


def full_snapshot(a):
    s = {}
    for d in range(len(a.disk_names)):
        s[("data", d)] = A.snapshot(a.ddir(d))
    s[("parity",)] = A.snapshot(os.path.join(a.root, "par"))
    s[("cnt",)] = A.snapshot(os.path.join(a.root, "cnt"))
    s[("pool",)] = A.snapshot(os.path.join(a.root, "pool"))
    s[("import",)] = A.snapshot(os.path.join(a.root, "import"))
    top = {}
    for n in os.listdir(a.root):
        if n in ("logs",) or n in a.disk_names or n in ("par", "cnt", "pool", "import"):
            continue
        st = os.lstat(os.path.join(a.root, n))
        top[n.encode()] = ("file", st.st_size, st.st_mtime_ns, st.st_ino, None)
    s[("root",)] = top
    return s


def fixed_paths(r):
    """(disk name, sub) named by fix as written."""
    out = set()
    for t in r.tags:
        if t[0] in (b"fixed", b"unrecoverable") and len(t) >= 4:
            try:
                int(t[1])
                out.add((t[2], t[3]))
            except ValueError:
                out.add((t[1], t[2]))
        elif t[0] in (b"status",) and len(t) >= 4 and t[1] in (b"recovered", b"unrecoverable", b"recoverable", b"damaged"):
            out.add((t[2], t[3]))
        elif t[0] in (b"hardlink_fixed", b"symlink_fixed", b"dir_fixed", b"hardlink_error", b"symlink_error", b"dir_error") and len(t) >= 3:
            out.add((t[1], t[2]))
    return out


def run_case(case):
    seed, idx, tier = case
    rng = random.Random("c12-%d-%d" % (seed, idx))
    res = dict(key="c12-%d" % idx, violations=[], counters={}, nontrivial=False)
    cfg = scen.gen_config(rng, max_nd=4, max_lev=3)
    cfg["pool"] = True
    if idx >= 100000:
        # more data disks than parity levels, so that a stripe can be damaged beyond the redundancy
        cfg["nd"] = max(cfg["nd"], 2)
        cfg["nlev"] = min(cfg["nlev"], cfg["nd"] - 1)
        if cfg["nlev"] < 3:
            cfg["zmode"] = False
        if cfg.get("splits"):
            cfg["splits"] = cfg["splits"][:cfg["nlev"]]
    a, fs, state0, hist, cfg = build_synced_array(rng, "c12", cfg, "plain", rounds=rng.randint(0, 1), want_migration=False)
    try:
        os.makedirs(os.path.join(a.root, "import"), exist_ok=True)
        with open(os.path.join(a.root, "import", "stray"), "wb") as f:
            f.write(A.gen_bytes(rng, 3000))
        # pre-existing pool content
        with open(os.path.join(a.root, "pool", "foreign-file"), "wb") as f:
            f.write(b"keep me")
        # zero-nanosecond files for touch, one of them replaced later by a non-zero-nanosecond version
        fs.write(a.disks[0], b"zns-1", A.gen_bytes(rng, 1200), mtime_ns=(A.EPOCH0 - 1000) * 10**9)
        fs.write(a.disks[0], b"zns-2", A.gen_bytes(rng, 1300), mtime_ns=(A.EPOCH0 - 900) * 10**9)
        # zero-length files: later replaced by symbolic links pointing at other files
        fs.write(a.disks[0], b"zero-len-1", b"")
        fs.write(a.disks[-1], b"zero-len-2", b"")
        r = a.cmd("sync", "-E", "-Z")
        if r.rc != 0:
            raise scen.CaseError("setup sync failed")
        state_kind = ["healthy", "unsynced", "damaged", "lostdisk", "lostparity", "unsynced+damaged"][idx % 6]
        if idx >= 100000:
            # damage beyond the redundancy in a few stripes: the first fix leaves NAME.unrecoverable files behind, later
            # restricted / filtered fixes meet them again (and must not make them disappear without saying so)
            state_kind = "unrecoverable"
        if "unsynced" in state_kind:
            scen.mutate(fs, rng, rng.randint(3, 7), hostile=0.1)
            # the recorded version has zero nanoseconds, the file on disk does not
            fs.write(a.disks[0], b"zns-2", A.gen_bytes(rng, 1300), mtime_ns=(A.EPOCH0 + 5000) * 10**9 + 123456789, keep_inode=True)
            # ... and another one was modified to a DIFFERENT whole second (still zero nanoseconds on disk): touch may set its
            # sub-second part but must leave the seconds of the file on disk alone
            fs.write(a.disks[0], b"zns-1", A.gen_bytes(rng, 1200), mtime_ns=(A.EPOCH0 + 7000) * 10**9, keep_inode=True)
        st = fs.clone_entries()
        if "damaged" in state_kind:
            scen.damage_data_disk(a, fs, rng, rng.choice(a.disks), rng.choice(["delete", "flip", "truncate", "rmlinks"]), st)
        if state_kind in ("damaged", "unsynced+damaged", "unsynced") and rng.random() < 0.6:
            # where an empty file is recorded there is now a symbolic link: to a healthy non-empty file of the array, and to a
            # path that does not exist (inside the array root, where the snapshot sees anything that gets created)
            victims = [(d_, s_) for (d_, s_) in fs.files() if len(fs.entries[d_][s_][1]) > 0 and os.path.isfile(fs.path(d_, s_))]
            p1, p2 = fs.path(a.disks[0], b"zero-len-1"), fs.path(a.disks[-1], b"zero-len-2")
            if victims and os.path.isfile(p1) and not os.path.islink(p1):
                os.unlink(p1)
                os.symlink(fs.path(*rng.choice(victims)), p1)
                res["counters"]["empty_files_replaced_by_links"] = res["counters"].get("empty_files_replaced_by_links", 0) + 1
            if os.path.isfile(p2) and not os.path.islink(p2):
                os.unlink(p2)
                os.symlink(os.path.join(os.fsencode(a.root), b"created-through-dangling-link"), p2)
        if state_kind == "unrecoverable":
            from .. import dmg
            c_u = a.load_content()
            n2i_u = {nm.encode(): i for i, nm in enumerate(a.disk_names)}
            cands_u = []
            for pos, ents in sorted(c_u.stripe_map().items()):
                fe = {}
                for e in ents:
                    if e[1] == "file" and e[4] == cnt.BLK and not fs.links_of(n2i_u[c_u.disk_name(e[0])], e[2].sub):
                        fe.setdefault(e[0], e)
                if len(fe) > a.nlev:
                    cands_u.append(list(fe.values()))
            if not cands_u:
                raise scen.CaseError("no stripe with more file blocks than parity levels")
            ndmg = 0
            for fe in rng.sample(cands_u, min(len(cands_u), rng.randint(1, 2))):
                for e in rng.sample(fe, a.nlev + 1):
                    if dmg.damage_file_block(a, c_u, e[2], e[3], rng, rng.choice(["byte", "block"])) == "ok":
                        ndmg += 1
            res["counters"]["blocks_damaged_beyond_redundancy"] = ndmg
        if state_kind == "lostdisk":
            scen.wipe_disk(a, rng.choice(a.disks))
        if state_kind == "lostparity":
            scen.damage_parity_file(rng.choice(a.all_parity_paths()), rng, rng.choice(["delete", "delete", "delete", "flips", "zero"]))
        ncmd = 8 if tier == "quick" else 16
        cmds = rng.sample(CMDS, ncmd)
        musts = [("touch", []), ("pool", [])]
        if state_kind != "healthy":
            # a fix restricted to a range of stripes that ends somewhere inside the array (files cut by the range end are
            # opened but not finished)
            musts.append(("fix", ["-S", rng.choice(["0", "RS"]), "-B", "RB"]))
            musts.append(("fix", ["-S", "0", "-B", "RB_CUT"]))
        if state_kind == "lostparity":
            # data-only fixes while a parity file is missing: the excluded parity must not be touched (nor re-created)
            musts.append(("fix", list(rng.choice([["-d", "DISK"], ["-m"], ["-f", "*a*"]]))))
        for must in musts:
            if must not in cmds:
                cmds.append(must)
        # mutating commands last so that read-only ones see the interesting state
        if state_kind != "unrecoverable":
            cmds.sort(key=lambda c_: 0 if c_[0] in READONLY else (0.5 if ("RB_CUT" in c_[1] or (state_kind == "lostparity" and c_[0] == "fix" and c_[1][:1] in (["-d"], ["-m"], ["-f"]) and c_[1] != ["-d", "parity"])) else (1 if c_[0] in ("pool", "scrub", "touch", "rehash") else 2)))
        if state_kind == "unrecoverable":
            tail = [("fix", ["UNREC_RANGE"]), ("fix", ["UNREC_RANGE"]), ("fix", ["-S", "0", "-B", "RB"]), ("scrub", ["-p", "full"]), ("_retime_unrecoverable", []), ("fix", ["-e"]),
                    ("fix", ["-b"]), ("fix", ["-m"]), ("fix", ["-d", "DISK"]), ("fix", ["-f", "*a*"]), ("check", []), ("fix", [])]
            rng.shuffle(tail)
            cmds = [("status", []), ("fix", [])] + tail[:6 if tier == "quick" else 10]
        for cmd, args0 in cmds:
            if cmd == "_retime_unrecoverable":
                # the user looks at the saved copies (new time-stamp, same bytes)
                for d_ in a.disks:
                    for root_, _dirs, files_ in os.walk(os.fsencode(a.ddir(d_))):
                        for fn_ in files_:
                            if fn_.endswith(b".unrecoverable"):
                                mt_ = fs.clock.next()
                                os.utime(os.path.join(root_, fn_), ns=(mt_, mt_))
                continue
            if args0 == ["UNREC_RANGE"]:
                # a range that covers the first block of a file now present only as NAME.unrecoverable, and not its last one
                args0 = ["-S", "0", "-B", "1"]
                try:
                    c_r = a.load_content()
                    n2i_r = {nm.encode(): i for i, nm in enumerate(a.disk_names)}
                    cr_ = [f for f in c_r.files if len(f.blocks) >= 2 and
                           os.path.exists(os.path.join(os.fsencode(a.ddir(n2i_r[c_r.disk_name(f.disk)])), f.sub + b".unrecoverable"))]
                    if cr_:
                        f_r = rng.choice(cr_)
                        args0 = ["-S", str(f_r.blocks[0][0]), "-B", "1"]
                        res["counters"]["fix_ranges_opening_an_unrecoverable_copy"] = res["counters"].get("fix_ranges_opening_an_unrecoverable_copy", 0) + 1
                except Exception:
                    pass
            disk = a.disk_names[rng.choice(a.disks)]
            try:
                bmax = a.load_content().blockmax
            except Exception:
                bmax = 8
            if "RB_CUT" in args0:
                cut = cut_range(a, rng)
                args0 = [(cut or "RB") if x == "RB_CUT" else x for x in args0]
                res["counters"]["fix_ranges_cutting_a_file"] = res["counters"].get("fix_ranges_cutting_a_file", 0) + (1 if cut else 0)
            args = [disk if x == "DISK" else (os.path.join(a.root, "import") if x == "IMPORT" else
                                              (str(rng.randint(0, max(0, bmax // 2))) if x == "RS" else (str(rng.randint(1, max(1, (2 * bmax) // 3))) if x == "RB" else x)))
                    for x in args0]
            if cmd == "rehash":
                args = args + [rng.choice(["--test-force-spooky2", "--test-force-murmur3"])]
            before = full_snapshot(a)
            stp = os.path.join(a.root, "logs", "strace-%d" % a.logn)
            r = a.cmd(cmd, *args, strace=stp, timeout=180)
            after = full_snapshot(a)
            res["counters"]["runs"] = res["counters"].get("runs", 0) + 1
            res["counters"]["cmd_" + cmd] = res["counters"].get("cmd_" + cmd, 0) + 1
            rep = {"case": list(case), "cfg": cfg, "state": state_kind, "cmd": [cmd] + args}
            label = "%s %s on a %s array (rc=%s)" % (cmd, " ".join(args), state_kind, r.rc)
            allowed = ALLOWED[cmd]
            # ---- observer 1: snapshot diff
            changed = []
            for k in before:
                for (p, what, x, y) in A.snap_diff(before[k], after[k]):
                    if k[0] == "cnt":
                        cls = "lock" if p.endswith(b".lock") else "content"
                    elif k[0] == "data":
                        full = os.path.join(os.fsencode(a.ddir(k[1])), p)
                        cls = classify(a, full)
                    else:
                        cls = {"parity": "parity", "pool": "pool", "import": "outside", "root": "root"}[k[0]]
                    changed.append((cls, k, p, what, x, y))
            for (cls, k, p, what, x, y) in changed:
                if cls == "data" and x is not None and y is not None and x[0] == "dir" and y[0] == "dir":
                    continue  # directory time-stamps follow entries created inside
                if cls not in allowed:
                    res["violations"].append(("%s-modifies-%s" % (cmd, cls), "%s: %s %r (%s -> %s)" % (label, what, p, x, y), rep))
            # ---- command specific rules
            if cmd == "fix" and (("-d" in args and not args[args.index("-d") + 1].endswith("parity")) or "-f" in args or "-m" in args):
                # the filter excludes every parity level: no parity file may change, appear or disappear
                for (cls, k, p, what, x, y) in changed:
                    if cls == "parity":
                        res["violations"].append(("fix-touches-parity-excluded-by-its-filter", "%s: %s %r (%s -> %s)" %
                                                  (label, what, p, x[:2] if x else None, y[:2] if y else None), rep))
                        break
            if cmd == "fix" and b"Stopping at block" in r.err and r.rc != 0:
                # fix gave up with a fatal message in the middle of the array (e.g. the path of a recorded file is now a
                # directory): an announced incomplete run; what it had begun (a marker renamed back, a file created) carries
                # no report - counted, not judged; the rules about content, parity classes and system calls still apply
                res["counters"]["fix_runs_stopped_by_a_fatal_error"] = res["counters"].get("fix_runs_stopped_by_a_fatal_error", 0) + 1
            elif cmd == "fix":
                named = fixed_paths(r)
                # inodes of the named files after the run: another name of the same inode (hard link) changes with it
                named_ino = set()
                for k2 in after:
                    if k2[0] != "data":
                        continue
                    dn2 = a.disk_names[k2[1]].encode()
                    for (nd_, sub_) in named:
                        if nd_ != dn2:
                            continue
                        # the reported file as it is now, as it was before, or under the name it was given when fix gave up
                        for e_ in (after[k2].get(sub_), before[k2].get(sub_), after[k2].get(sub_ + b".unrecoverable")):
                            if e_ is not None and e_[0] == "file":
                                named_ino.add((k2[1], e_[3]))
                for (cls, k, p, what, x, y) in changed:
                    if cls != "data":
                        continue
                    if x is not None and y is not None and x[0] == "dir" and y[0] == "dir":
                        continue
                    dn = a.disk_names[k[1]].encode()
                    base = p[:-len(b".unrecoverable")] if p.endswith(b".unrecoverable") else p
                    if (dn, p) in named or (dn, base) in named:
                        continue
                    if y is not None and y[0] == "file" and (k[1], y[3]) in named_ino:
                        continue
                    # parents created for a restored entry
                    if y is not None and y[0] == "dir" and any(n[0] == dn and n[1].startswith(p + b"/") for n in named):
                        continue
                    # diagnosis of one recorded mechanism: 'p.unrecoverable' left by an earlier fix is renamed back to 'p' (same
                    # bytes, size, time) by a fix that is restricted (-S/-B/-e) to blocks other than the bad one, and nothing is said
                    why = ""
                    restricted = any(o in args for o in ("-S", "-B", "-e", "-m"))
                    if restricted and what == "created" and y[0] == "file":
                        xu = before[k].get(p + b".unrecoverable")
                        if xu is not None and (p + b".unrecoverable") not in after[k] and (xu[1], xu[2], xu[4]) == (y[1], y[2], y[4]):
                            why = "/unrecoverable-marker-dropped-by-restricted-fix-that-skipped-the-bad-block"
                    if restricted and what == "removed" and p.endswith(b".unrecoverable") and x[0] == "file":
                        yb = after[k].get(base)
                        if yb is not None and base not in before[k] and (yb[1], yb[2], yb[4]) == (x[1], x[2], x[4]):
                            why = "/unrecoverable-marker-dropped-by-restricted-fix-that-skipped-the-bad-block"
                    res["violations"].append(("fix-writes-unreported-path" + why, "%s: %s %r not named by any fixed/status tag" % (label, what, p), rep))
            if cmd == "touch":
                for (cls, k, p, what, x, y) in changed:
                    if cls != "data":
                        continue
                    if x is not None and y is not None and x[0] == "dir":
                        continue
                    if what != "changed" or x[0] != "file" or x[1] != y[1] or x[4] != y[4] or x[3] != y[3]:
                        res["violations"].append(("touch-changes-more-than-time", "%s: %s %r" % (label, what, p), rep))
                    elif x[2] // 10**9 != y[2] // 10**9:
                        res["violations"].append(("touch-changes-seconds", "%s: %r %d -> %d" % (label, p, x[2], y[2]), rep))
                    elif x[2] % 10**9 != 0:
                        res["violations"].append(("touch-rewrites-nonzero-subsecond", "%s: %r had sub-second part %d on disk, now %d" %
                                                  (label, p, x[2] % 10**9, y[2] % 10**9), rep))
                fs.adopt_touch()
            # ---- observer 2: strace
            muts = strace_mutations(stp)
            if muts is None:
                res["inconclusive"] = "no strace output"
            else:
                res["counters"]["strace_mutating_calls"] = res["counters"].get("strace_mutating_calls", 0) + len(muts)
                for (sc, p) in sorted(muts):
                    cls = classify(a, p)
                    if cls in ("outside",):
                        if p.startswith((b"/dev/", b"/proc/", b"/sys/")):
                            continue
                        res["violations"].append(("%s-writes-outside-array" % cmd, "%s: %s(%r)" % (label, sc, p), rep))
                    elif cls in ("root", "content-dir"):
                        if p == os.fsencode(a.root) or p == os.path.join(os.fsencode(a.root), b"cnt"):
                            continue
                        res["violations"].append(("%s-syscall-on-%s" % (cmd, cls), "%s: %s(%r)" % (label, sc, p), rep))
                    elif cls not in allowed:
                        res["violations"].append(("%s-syscall-on-%s" % (cmd, cls), "%s: %s(%r)" % (label, sc, p), rep))
                    elif cls == "data" and cmd == "touch" and sc not in ("utimensat", "futimens", "openat", "open"):
                        res["violations"].append(("touch-syscall-on-data:" + sc, "%s: %s(%r)" % (label, sc, p), rep))
                    elif cls == "data" and cmd == "touch" and sc in ("openat", "open"):
                        # touch opens read-only; an open for writing shows up here only if flags had a write mode
                        res["violations"].append(("touch-opens-data-for-writing", "%s: %s(%r)" % (label, sc, p), rep))
            try:
                os.unlink(stp)
            except OSError:
                pass
            if _unmatched(res) >= 4:
                break
        res["nontrivial"] = res["counters"].get("runs", 0) > 0
        res["key"] = "%s|%s|%s" % (sorted(cfg.items()), state_kind, [c_[0] + " ".join(c_[1]) for c_ in cmds])
        res["sample"] = {"cfg": cfg, "state": state_kind, "cmds": [[c_[0]] + c_[1] for c_ in cmds]}
        res["nruns"] = res["counters"].get("runs", 0)
        return res
    finally:
        a.cleanup()


def main(tier, seed, replay, jobs, scale):
    run = evidence.Run("C12", tier, seed, "exploration", RULE)
    if replay:
        import json
        cases = [tuple(json.load(open(replay))["replay"]["case"])]
    else:
        n = int((90 if tier == "quick" else 3000) * scale)
        cases = [(seed, i, tier) for i in range(n)]
        # arrays on which an earlier fix left NAME.unrecoverable files
        cases += [(seed, 100000 + i, tier) for i in range(max(12, n // 3))]
    results = list(par.run_cases(run_case, cases, jobs))
    par.absorb(run, results)
    n = sum(r.get("nruns", 0) for _c, r in results)
    run.evaluations = n
    run.nontrivial = set(range(n))
    run.assumptions += ["access times are not observed (O_NOATIME is best effort)",
                        "directory time-stamps on data disks are allowed to follow entries created by fix",
                        "fix may grow or trim parity files; parity is in fix's allowed set as a whole"]
    return run.finish(min_eval=20, min_nontrivial=20)
