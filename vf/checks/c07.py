"""C07 Interrupted sync and fix are safe and resumable (fault enumeration over kill points)."""
import os
import random
import shutil
import subprocess

from .. import arr as A
from .. import content as cnt
from .. import evidence, par, scen, shimlog
from .c01 import Template, build_synced_array
from .c06 import oracle as c06_oracle


def _unmatched(res):
    """violations not covered by an open known finding (those must not stop the exploration early)"""
    from .. import findings
    return len([v for v in res["violations"] if findings.match("C07", v[0]) is None])


RULE = ("scenarios = synced array + pending change set (adds only / adds+deletes+updates), 1..6 parities, 1..4 content copies, "
        "forced autosave on/off, io-cache 1/3/default. A counting run under the shim numbers the state-changing system calls "
        "(write, pwrite, rename, ftruncate, fallocate, fsync, unlink, mkdir, link, symlink, utimens, creating opens) on data, parity "
        "and content files; for each index k (all in thorough, stratified in quick) and each mode (kill before / after / mid-write) "
        "the pre-run image is restored and the command is run with the kill rule (counted only if the shim logged INJ). Then: data "
        "dirs byte-identical to before; status and list load; (adds-only) after losing one data disk fix restores every "
        "previously synced file byte-exact; sync again exits 0, the C06 parity oracle holds, losing <= N devices is recoverable "
        "and check is clean. Graceful stop: SIGINT raised at the j-th parity write of sync, same follow-up (adds-only: up to N "
        "devices). Fix: kill at each of fix's own calls, run fix again, final tree equals the uninterrupted twin's tree (mtime of the "
        "file being rewritten exempt). Between interruption and resume: old data re-added (changing sets) or pending files re-timed (copies with p=0.9). One fix scenario in three is fix -m on a fragmented array, stopped gracefully at every call; if the uninterrupted run is not at its fix-point the comparison is made with a second uninterrupted run; a name holding exactly the recorded version where the uninterrupted run left name.unrecoverable counts as recovered more, not as a difference. Non-trivial/distinct per (scenario, k, mode) whose rule fired.")

MODES = ("kill-before", "kill-after", "kill-mid")


def data_snapshots(a):
    return {d: A.snapshot(a.ddir(d)) for d in a.disks}


def own_files(a):
    own = scen.content_copy_subs(a)
    return own


def diff_data(a, before):
    out = []
    own = own_files(a)
    for d in a.disks:
        now = A.snapshot(a.ddir(d))
        strip = lambda sn: {k: (v[0], v[1], v[2] if v[0] != "dir" else 0, v[4]) for k, v in sn.items()}  # inode apart: images are restored by cp -a
        for (k, what, x, y) in A.snap_diff(strip(before[d]), strip(now)):
            if k in own[d] or k.endswith((b".content.tmp", b".content.lock")):
                continue
            out.append((d, k, what))
    return out


def verify_synced_before(a, fs, state0, disks):
    """Files recorded by the earlier clean sync must be there with their bytes."""
    sub = {d: {s: e for s, e in state0[d].items() if e[0] == "file"} for d in state0}
    return scen.verify_tree(a, fs, sub, disks=disks, allow_extra=True)


def diagnose_parity(a, evs, bad, base_key, readd=None):
    """Mechanism key for a parity mismatch after an interruption."""
    from .. import parity as P
    if not bad or base_key != "parity-mismatch":
        return base_key
    try:
        c = cnt.load(a.cpaths()[0])
    except Exception:
        return base_key
    views = P.parity_views(a, c)

    def where(pos, lev):
        i, off = views[lev].locate(pos)
        pth = os.fsencode(views[lev].paths[i]) if i is not None and views[lev].paths[i] else None
        return pth, off

    # mechanism 2: the killed run had already shrunk the parity file below these stripes (ftruncate comes before the
    # content save that records the deletions), and the same data came back before the resume
    if readd:
        shr = {}
        for e in evs:
            if e.kind == "E" and e.cls == "parity" and e.op == "trunc" and e.ret == 0:
                shr[e.path] = min(shr.get(e.path, 1 << 62), e.off)
        if all((where(pos, lev)[0] in shr and shr[where(pos, lev)[0]] <= where(pos, lev)[1]) for (pos, lev) in bad):
            return "parity-mismatch/parity-shrunk-by-killed-sync-then-same-data-readded"
    # mechanism 1: the mismatching parity blocks were never written before the last completed content save of the
    # interrupted run (autosave while the writers still hold queued writes)
    first_copy = os.fsencode(a.cpaths()[0])
    saves = [e.seq for e in evs if e.kind == "E" and e.cls == "content" and e.op == "rename" and e.ret == 0 and e.path2 == first_copy]
    if len(saves) < 2:
        return base_key  # only the pre-sync save completed: it cannot declare anything synced by this run
    last_save = max(saves)
    written = set()
    dataread = set()
    for e in evs:
        if e.kind != "E" or e.seq >= last_save:
            continue
        if e.cls == "parity" and e.op == "write" and e.ret > 0:
            written.add((e.path, e.off))
        elif e.cls == "data" and e.op == "read" and e.ret > 0:
            dataread.add((e.path, e.off))
    sm = c.stripe_map()
    n2i = {n.encode(): i for i, n in enumerate(a.disk_names)}
    for (pos, lev) in bad:
        if where(pos, lev) in written:
            return base_key
        # the stripe must have been processed (its data read) before that save
        processed = False
        for e_ in sm.get(pos, []):
            if e_[1] == "file":
                pth = os.path.join(os.fsencode(a.ddir(n2i[c.disk_name(e_[0])])), e_[2].sub)
                if (pth, e_[3] * c.blocksize) in dataread:
                    processed = True
        if not processed:
            return base_key
    return "parity-mismatch/content-saved-before-queued-parity-write"


def followup(a, fs, res, label, replay, variant, state_final, nlev_loss_rng, killed_events=None, readd=None, retouch=None):
    """sync again -> exit 0 -> parity oracle -> sampled recovery -> check."""
    V = res["violations"]
    if retouch:
        # between the interruption and the resume some of the pending files get a new time-stamp (same bytes, e.g. restored
        # from a backup that does not keep time-stamps): whatever the interrupted run recorded about them is out of date
        state_final = {d: dict(es) for d, es in state_final.items()}
        for (d, nm) in retouch:
            e = state_final[d].get(nm)
            p = os.path.join(os.fsencode(a.ddir(d)), nm)
            if e is None or e[0] != "file" or not os.path.isfile(p):
                continue
            mt = fs.clock.next()
            os.utime(p, ns=(mt, mt))
            fs._remember(d, nm, e[1], mt)
            state_final[d][nm] = ("file", e[1], mt)
    if readd:
        # between the interruption and the resume the user brings back data that was pending deletion,
        # under another name (same bytes): nothing may be trusted from before the interruption
        state_final = {d: dict(es) for d, es in state_final.items()}
        for (d, nm, data) in readd:
            p = os.path.join(os.fsencode(a.ddir(d)), nm)
            try:
                os.makedirs(os.path.dirname(p), exist_ok=True)
                with open(p, "wb") as f:
                    f.write(data)
                mt = fs.clock.next()
                os.utime(p, ns=(mt, mt))
                fs._remember(d, nm, data, mt)
                state_final[d][nm] = ("file", data, mt)
            except OSError:
                pass
    r = a.cmd("sync", "-E", "-Z", variant=variant)
    for s in r.san:
        V.append(("sanitizer:" + A.san_key(s), "%s resume-sync: %s" % (label, s[:2500]), replay))
    if r.rc != 0:
        V.append(("resume-sync-fails", "%s: second sync rc=%s %s" % (label, r.rc, r.err[-300:].decode("latin-1")), replay))
        return False
    probs = []
    bad = c06_oracle(a, fs, probs, {}, label + " after resume-sync")
    for key, desc in probs[:2]:
        V.append(("resume:" + (diagnose_parity(a, killed_events, bad, key, readd) if killed_events is not None else key), desc, replay))
    if probs:
        return False
    # sampled C01 recovery
    rng = nlev_loss_rng
    if rng.random() < 0.5:
        devs = [("data", d) for d in a.disks] + [("parity", l) for l in range(a.nlev)]
        lost = rng.sample(devs, rng.randint(1, min(a.nlev, len(devs))))
        for kind, i in lost:
            if kind == "data":
                scen.wipe_disk(a, i)
            else:
                for p in a.ppaths(i):
                    if os.path.exists(p):
                        os.unlink(p)
        rf = a.cmd("fix", variant=variant)
        if rf.rc != 0:
            V.append(("resume:fix-fails-within-redundancy", "%s: after resume-sync, lost %s, fix rc=%s %s" % (label, lost, rf.rc, rf.err[-200:].decode("latin-1")), replay))
            return False
        pr = scen.verify_tree(a, fs, state_final, allow_extra=True)
        if pr:
            why = ""
            try:
                if a.load_content().blockmax == 0 and all(p_["what"] == "missing" for p_ in pr):
                    # recorded mechanism (F26, found by C01): no file of the array has any block, fix returns before the
                    # pass that re-creates empty files, links and directories
                    why = "/array-without-any-file-block(fix-returns-before-recreating-empty-files-links-dirs)"
            except Exception:
                pass
            V.append(("resume:fix-wrong-result" + why, "%s: after resume-sync, lost %s: %s" % (label, lost, evidence.jsonable(pr[:3])), replay))
            return False
    rc = a.cmd("check", variant=variant)
    if rc.rc != 0:
        V.append(("resume:check-fails", "%s: check rc=%s %s" % (label, rc.rc, rc.err[-200:].decode("latin-1")), replay))
        return False
    return True


def run_sync_scenario(case):
    kind, seed, idx, tier = case
    rng = random.Random("c07-%d-%d" % (seed, idx))
    variant = "asan" if idx % 5 == 4 else "plain"
    res = dict(key="sync-scn-%d" % idx, violations=[], counters={}, nontrivial=False)
    nlev = [1, 2, 3, 6, 1, 2, 4, 5][idx % 8]
    # hash size 16 only: with reduced hash sizes the tool cannot recognise the special ZERO/INVALID hashes (documented
    # limitation, elem.h hash_is_zero), so "adds only stay recoverable meanwhile" is not promised there; the property's
    # quantifier does not range over hash sizes
    cfg = scen.gen_config(rng, force=dict(nlev=nlev, nd=rng.randint(2, 4), ncontent=[1, 4, 2, 3][idx % 4], hashsize=16), allow_splits=(idx % 3 == 0))
    adds_only = (idx % 2 == 0)
    a, fs, state0, hist, cfg = build_synced_array(rng, "c07", cfg, variant, rounds=rng.randint(0, 1), want_migration=False)
    tpl = None
    try:
        if adds_only:
            scen.mutate(fs, rng, rng.randint(3, 7), hostile=0.1, ops=["create", "create", "copy", "copy", "mkdir"], maxblocks=4)
        elif idx % 4 == 3:
            # deletions only: nothing else competes for the freed positions when the data comes back
            c0 = a.load_content()
            sm0 = c0.stripe_map()
            n2i = {n.encode(): i for i, n in enumerate(a.disk_names)}
            shared = []
            for f in c0.files:
                d_ = n2i[c0.disk_name(f.disk)]
                if not f.blocks or fs.links_of(d_, f.sub) or fs.entries[d_].get(f.sub, ("",))[0] != "file":
                    continue
                # stripes shared with another disk and not at the very end of the array (so the parity is rewritten, not cut)
                if all(any(x[0] != f.disk and x[1] == "file" for x in sm0[p_]) for (p_, _s, _h) in f.blocks) and f.blocks[-1][0] < c0.blockmax - 1:
                    shared.append((d_, f.sub))
            big = shared or [(d, s_) for d in a.disks for s_, e in state0[d].items() if e[0] == "file" and len(e[1]) > 0 and not fs.links_of(d, s_)]
            for (d_, s_) in rng.sample(big, min(len(big), rng.randint(1, 2))):
                fs.remove(d_, s_)
        else:
            scen.mutate(fs, rng, rng.randint(4, 9), hostile=0.1, maxblocks=4)
            # the pending set always removes at least one multi-block file synced before
            big = [(d, s_) for d in a.disks for s_, e in state0[d].items() if e[0] == "file" and len(e[1]) > a.bs
                   and fs.entries[d].get(s_) == e and not fs.links_of(d, s_)]
            if big:
                d_, s_ = rng.choice(big)
                fs.remove(d_, s_)
        state_final = scen.recorded_state(fs)
        sync_args = ["-E", "-Z"]
        ioc = [None, "1", "3", None][idx % 4]
        if ioc:
            sync_args += ["--test-io-cache", ioc]
        if idx % 3 == 1:
            sync_args += ["--test-force-autosave-at", str(rng.randint(1, 6))]
        before = data_snapshots(a)
        tpl = Template(a)
        # counting run (twin)
        r = a.cmd("sync", *sync_args, variant=variant, shim={})
        if r.rc != 0:
            raise scen.CaseError("twin sync failed: %s" % r.err[-200:])
        evs = shimlog.parse(r.events)
        muts = [e for e in evs if e.cls in ("data", "parity", "content") and shimlog.is_mut(e)]
        data_muts = [e for e in muts if e.cls == "data"]
        if data_muts:
            res["violations"].append(("sync-mutates-data-disk", "sync issued %s on %r" % (data_muts[0].op, data_muts[0].path), {"case": list(case)}))
        K = len(muts)
        npar = len([e for e in evs if e.cls == "parity" and e.op == "write" and e.kind == "E"])
        res["counters"]["mutating_calls"] = K
        res["counters"]["scenarios"] = 1
        points = [(k, m) for k in range(1, K + 1) for m in MODES]
        if tier == "quick":
            ks = sorted(set(rng.sample(range(1, K + 1), min(K, 20)) + [1, K]))
            points = [(k, rng.choice(MODES)) for k in ks] + [(k, m) for k in rng.sample(ks, min(5, len(ks))) for m in MODES]
        sig_points = list(range(1, npar + 1))
        if tier == "quick" and len(sig_points) > 12:
            sig_points = sorted(rng.sample(sig_points, 12))
        allp = [("kill", k, m) for (k, m) in points] + [("sigint", j, "sigint") for j in sig_points]
        # kills right after each content rename while the parity writers are slowed down (write-behind made visible)
        nren = len([e for e in evs if e.kind == "E" and e.cls == "content" and e.op == "rename"])
        allp += [("slowkill", j, "kill-after") for j in range(1, nren + 1)]
        fired = 0
        for (ptype, k, mode) in allp:
            tpl.restore()
            if ptype == "kill":
                plan = "tracked:mut:n=%d:%s" % (k, mode)
            elif ptype == "sigint":
                plan = "parity:write:n=%d:sigint" % k
            else:
                plan = "content:rename:n=%d:kill-after;parity:write:all:delay=2" % k
            r = a.cmd("sync", *sync_args, variant=variant, shim={"plan": plan})
            ev2 = shimlog.parse(r.events)
            if not [e for e in shimlog.injected(ev2) if e.action != "delay"]:
                res["counters"]["rule_not_fired"] = res["counters"].get("rule_not_fired", 0) + 1
                continue
            fired += 1
            replay = {"case": list(case), "cfg": cfg, "adds_only": adds_only, "sync_args": sync_args, "point": [ptype, k, mode], "of": K}
            label = "sync %s interrupted by %s at %d/%d (%s)" % (" ".join(sync_args), ptype, k, K if ptype == "kill" else npar, mode)
            for s in r.san:
                res["violations"].append(("sanitizer:" + A.san_key(s), "%s: %s" % (label, s[:2500]), replay))
            if ptype == "sigint" and r.timeout:
                res["violations"].append(("sigint-does-not-terminate", label, replay))
                continue
            # (1) data untouched
            dd = diff_data(a, before)
            if dd:
                res["violations"].append(("interrupted-sync-modified-data", "%s: %s" % (label, evidence.jsonable(dd[:3])), replay))
                continue
            # (2) content loads
            ok = True
            for cmd in ("status", "list"):
                rs = a.cmd(cmd, variant=variant)
                if rs.rc != 0:
                    res["violations"].append(("no-content-loads-after-interruption", "%s: %s rc=%s %s" % (label, cmd, rs.rc, rs.err[-250:].decode("latin-1")), replay))
                    ok = False
                    break
            if not ok:
                continue
            # (2b) the C06 invariant must hold on the interrupted image as well
            pr0 = []
            bad0 = c06_oracle(a, fs, pr0, {}, label + " (image right after the interruption)")
            if pr0:
                # observation only: neither C06 ("after every command") nor C07 promises the invariant on the image of a
                # killed process; what C07 promises is checked below (resume re-establishes the guarantee)
                res["counters"]["obs_interrupted_image_c06_mismatch"] = res["counters"].get("obs_interrupted_image_c06_mismatch", 0) + 1
            # (3) adds only: earlier files stay recoverable meanwhile
            if adds_only and (ptype == "sigint" or rng.random() < (0.5 if tier == "quick" else 0.8)):
                img = Template(a)
                try:
                    c_int = cnt.load(a.cpaths()[0])
                    # after a graceful stop up to N devices may be lost: mostly the worst case N
                    nloss = (a.nlev if rng.random() < 0.7 else rng.randint(1, a.nlev)) if ptype == "sigint" else 1
                    lost = rng.sample(list(a.disks), min(nloss, len(a.disks)))
                    for d in lost:
                        scen.wipe_disk(a, d)
                    rf = a.cmd("fix", variant=variant)
                    pr = verify_synced_before(a, fs, state0, lost)
                    res["counters"]["meanwhile_recoveries"] = res["counters"].get("meanwhile_recoveries", 0) + 1
                    if pr:
                        # diagnosis of the witness from the decoded block map of the interrupted state
                        torn_pos = None
                        if mode == "kill-mid" and ptype == "kill":
                            # the call that was cut is the event logged right before the injection record of the killed run
                            # (other threads' events can sit in between: look back for the last write on the same path)
                            for i_, e in enumerate(ev2):
                                if e.kind == "I" and e.action == "kill-mid":
                                    for prev in reversed(ev2[max(0, i_ - 200):i_]):
                                        if prev.kind == "E" and prev.op == "write" and prev.path == e.path:
                                            if prev.cls == "parity":
                                                torn_pos = prev.off // c_int.blocksize
                                            break
                                    break
                        sm = c_int.stripe_map()
                        reasons = {}
                        for p_ in pr:
                            rec = [f for f in c_int.files if f.sub == p_["sub"] and c_int.disk_name(f.disk).decode() == a.disk_names[p_["disk"]]]
                            if not rec:
                                # the name may be recorded as a hard link of another name of the same inode: its blocks are
                                # that file's blocks
                                for l_ in c_int.links:
                                    if l_["sub"] == p_["sub"] and l_["kind"] == "hardlink" and c_int.disk_name(l_["disk"]).decode() == a.disk_names[p_["disk"]]:
                                        rec = [f for f in c_int.files if f.sub == l_["linkto"] and f.disk == l_["disk"]]
                            why = "unexplained"
                            if rec:
                                poss = [b[0] for b in rec[0].blocks]
                                if any(e[4] == cnt.REP for pos in poss for e in sm.get(pos, [])):
                                    why = "stripe-holds-replaced(copy-detected)-block"
                                elif torn_pos is not None and a.nlev == 1 and torn_pos in poss:
                                    why = "torn-parity-block-with-single-parity"
                            if why == "unexplained" and rec and bad0:
                                # the saved content already declares new blocks of these stripes synced while their parity
                                # writes were still queued when the process died (same mechanism as the resume finding)
                                sub_bad = {k_: v_ for k_, v_ in bad0.items() if k_[0] in poss}
                                if sub_bad and diagnose_parity(a, ev2, sub_bad, "parity-mismatch") == "parity-mismatch/content-saved-before-queued-parity-write":
                                    why = "content-saved-before-queued-parity-write"
                            reasons.setdefault(why, []).append(p_)
                            if why == "unexplained" and os.environ.get("VERIF_DEBUG"):
                                print("DEBUG unexplained", p_, "torn_pos", torn_pos, "blocks", rec[0].blocks if rec else None, "mode", mode, ptype)
                                print("   last events:", [(e.kind, getattr(e, "op", None), getattr(e, "cls", None), getattr(e, "off", None), getattr(e, "len", None), getattr(e, "ret", None), getattr(e, "action", None)) for e in ev2[-6:]])
                                for pos in (rec[0].blocks if rec else []):
                                    print("   stripe", pos[0], [(c_int.disk_name(e[0]), e[1], e[2].sub if e[2] else None, e[4]) for e in sm.get(pos[0], [])])
                        for why, ps in reasons.items():
                            res["violations"].append(("adds-only:earlier-file-lost/" + why, "%s: lost %s, fix rc=%s: %s" %
                                                      (label, [a.disk_names[d] for d in lost], rf.rc, evidence.jsonable(ps[:3])), replay))
                finally:
                    img.restore()
                    img.cleanup()
            # (4) resume
            readd = None
            if not adds_only and rng.random() < 0.8:
                # files recorded by the earlier sync that the pending change set removed or replaced
                gone = [(d, s_, e[1]) for d in a.disks for s_, e in state0[d].items()
                        if e[0] == "file" and len(e[1]) > 0 and (s_ not in state_final[d] or state_final[d][s_][0] != "file" or state_final[d][s_][1] != e[1])]
                if gone:
                    pick = rng.sample(gone, min(len(gone), rng.randint(1, 3)))
                    readd = [(d, b"readd-%d-" % qi + s_.split(b"/")[-1], data) for qi, (d, s_, data) in enumerate(pick)
                             if (b"readd-%d-" % qi + s_.split(b"/")[-1]) not in state_final[d]]
                    # ... and removed files also come back under their own name (new time-stamp), which makes the
                    # allocator reuse exactly the positions they had
                    for (d, s_, data) in gone:
                        if s_ not in state_final[d] and not any(k_.startswith(s_ + b"/") for k_ in state_final[d]) and rng.random() < 0.7:
                            parent_ok = all((b"/".join(s_.split(b"/")[:i_]) not in state_final[d]) or state_final[d][b"/".join(s_.split(b"/")[:i_])][0] == "dir" for i_ in range(1, len(s_.split(b"/"))))
                            if parent_ok:
                                readd.append((d, s_, data))
                    replay = dict(replay, readd=[evidence.jsonable(x[1]) for x in readd])
            retouch = None
            if readd is None and rng.random() < 0.65:
                pend = [(d, s_) for d in a.disks for s_, e in state_final[d].items()
                        if e[0] == "file" and len(e[1]) > 0 and state0[d].get(s_) != e and not fs.links_of(d, s_)]
                # copies (same size and time-stamp as a file synced before) are recorded with borrowed hashes: always candidates
                stamps0 = {(len(e[1]), e[2]) for d in a.disks for e in state0[d].values() if e[0] == "file"}
                retouch = [x for x in pend if rng.random() < (0.9 if (len(state_final[x[0]][x[1]][1]), state_final[x[0]][x[1]][2]) in stamps0 else 0.5)] or None
                if retouch:
                    replay = dict(replay, retouch=[evidence.jsonable(x[1]) for x in retouch])
                    res["counters"]["resumes_after_retouch"] = res["counters"].get("resumes_after_retouch", 0) + 1
            followup(a, fs, res, label + (" + old data re-added before the resume" if readd else "") + (" + pending files re-timed before the resume" if retouch else ""),
                     replay, variant, state_final, rng, killed_events=ev2, readd=readd, retouch=retouch)
            if _unmatched(res) >= 4:
                break
        res["counters"]["points_fired"] = fired
        res["nontrivial"] = fired > 0
        res["points"] = fired
        res["sample"] = {"cfg": cfg, "adds_only": adds_only, "sync_args": sync_args, "mutating_calls": K, "parity_writes": npar,
                         "calls": [("%s %s" % (e.op, e.cls)) for e in muts[:12]]}
        return res
    finally:
        if tpl:
            tpl.cleanup()
        a.cleanup()


def tree_state(a):
    """Observable tree: type, size, digest/target per entry (mtime apart)."""
    out = {}
    own = own_files(a)
    for d in a.disks:
        for k, v in A.snapshot(a.ddir(d)).items():
            if k in own[d]:
                continue
            out[(d, k)] = v
    return out


def run_fix_scenario(case):
    kind, seed, idx, tier = case
    rng = random.Random("c07-fix-%d-%d" % (seed, idx))
    variant = "asan" if idx % 5 == 4 else "plain"
    res = dict(key="fix-scn-%d" % idx, violations=[], counters={}, nontrivial=False)
    # hash size 16 only (as in the sync half): with 2..8 byte hashes a block that cannot be rebuilt is now and then "verified"
    # by a colliding hash, depending on the state the interruption left in the parity
    cfg = scen.gen_config(rng, force=dict(nlev=rng.randint(1, 3), nd=rng.randint(2, 4), ncontent=2, content_on_data=False, hashsize=16))
    # one scenario in three: 'fix -m' (only what is missing) on an array whose files are fragmented over the parity by earlier
    # delete/add rounds, stopped gracefully: several files of one disk can be begun and unfinished at the same stripe
    only_missing = idx % 3 == 2
    a, fs, state0, hist, cfg = build_synced_array(rng, "c07f", cfg, variant, rounds=(rng.randint(2, 3) if only_missing else 0), want_migration=False)
    fargs = ["-m"] if only_missing else []
    tpl = None
    tpl_twin = None
    try:
        # damage: lose a disk, or delete/flip some files, plus links and dirs
        d = rng.choice(a.disks)
        how = rng.choice(["wipe", "wipe", "delete", "flip", "rmlinks"])
        if only_missing:
            how = rng.choice(["wipe", "wipe", "delete"])
        scen.damage_data_disk(a, fs, rng, d, how, state0)
        if rng.random() < 0.4:
            scen.damage_parity_file(rng.choice(a.all_parity_paths()), rng, rng.choice(["delete", "flips", "zero"]))
        prefix_fix = None
        if idx % 2 == 1 and len(a.disks) > a.nlev and not only_missing:
            # some stripes are damaged beyond the redundancy, and a first fix has already run: it left 'file.unrecoverable'
            # behind; the fix that gets interrupted is the one run after that
            c0 = a.load_content()
            from .. import dmg
            sm0 = c0.stripe_map()
            # one stripe of a multi-block file gets nlev+1 damaged blocks (the file's own block, blocks of other disks at the
            # same position, parity blocks): that block is unrecoverable, the rest of the file is fine
            cand = sorted([f for f in c0.files if len(f.blocks) >= 3 and os.path.exists(os.path.join(os.fsencode(a.ddir(a.disk_names.index(c0.disk_name(f.disk).decode()))), f.sub))],
                          key=lambda f_: -len(f_.blocks))
            for f in cand[:rng.randint(1, 2)]:
                i_ = rng.randint(1, len(f.blocks) - 2)
                pos = f.blocks[i_][0]
                done_ = 1 if dmg.damage_file_block(a, c0, f, i_, rng, "byte") == "ok" else 0
                for e in sm0.get(pos, []):
                    if done_ > a.nlev:
                        break
                    if e[1] == "file" and e[2] is not f and dmg.damage_file_block(a, c0, e[2], e[3], rng, "byte") == "ok":
                        done_ += 1
                for l_ in range(a.nlev):
                    if done_ > a.nlev:
                        break
                    if dmg.damage_parity_block(a, c0, l_, pos, rng, "block") == "ok":
                        done_ += 1
            prefix_fix = a.cmd("fix", variant=variant).rc
            res["counters"]["scenarios_after_a_first_fix"] = 1
            res["counters"]["unrecoverable_leftovers"] = sum(1 for k_ in tree_state(a) if k_[1].endswith(b".unrecoverable"))
        tpl = Template(a)
        r = a.cmd("fix", *fargs, variant=variant, shim={})
        evs = shimlog.parse(r.events)
        twin_rc = r.rc
        twin_tree = tree_state(a)
        twin_parity = a.parity_bytes()
        # what a SECOND uninterrupted run makes of it (computed only when needed): an uninterrupted fix is not always at its
        # fix-point - a block it could not rebuild can become fetchable once another file with the same data has been
        # restored - and "interrupted, then run again" is two runs as well
        tpl_twin = Template(a)
        twin2 = {}
        muts = [e for e in evs if e.cls in ("data", "parity", "content") and shimlog.is_mut(e)]
        cmuts = [e for e in muts if e.cls == "content" and not e.path.endswith(b".lock")]
        if cmuts:
            res["violations"].append(("fix-modifies-content", "fix issued %s on %r" % (cmuts[0].op, cmuts[0].path), {"case": list(case)}))
        K = len(muts)
        res["counters"]["fix_mutating_calls"] = K
        if K == 0:
            res["inconclusive"] = "fix made no call"
            return res
        # process death in three ways at every call, and a graceful stop (SIGINT raised inside the call: fix finishes the
        # stripe, cleans up what it created but did not finish, and exits)
        points = [(k, m) for k in range(1, K + 1) for m in list(MODES) + ["sigint"]]
        if only_missing:
            # after a process death a partial file exists and is, by definition, no longer "missing": only the graceful stop
            # (which removes what it created and did not finish) is judged with -m
            points = [(k, "sigint") for k in range(1, K + 1)]
            res["counters"]["fix_m_scenarios"] = 1
        if tier == "quick" and len(points) > 60:
            points = rng.sample(points, 60)
        def second_uninterrupted_run():
            """tree / status after running the uninterrupted twin a second time, and whether that second run only RECOVERED
            MORE than the first (every changed entry is now the recorded version of a file, or the 'name.unrecoverable' of
            such a file that is gone) - only then is it a fix-point to compare with"""
            if not twin2:
                img_now = Template(a)
                try:
                    tpl_twin.restore()
                    rt2 = a.cmd("fix", *fargs, variant=variant)
                    twin2["rc"] = rt2.rc
                    twin2["tree"] = tree_state(a)
                    twin2["parity"] = a.parity_bytes()
                finally:
                    img_now.restore()
                    img_now.cleanup()
                import hashlib

                def is_recorded(key_, ent):
                    e0 = state0[key_[0]].get(key_[1])
                    return (ent is not None and e0 is not None and e0[0] == "file" and ent[0] == "file" and ent[1] == len(e0[1])
                            and ent[2] == e0[2] and ent[4] == hashlib.sha256(e0[1]).hexdigest())
                t1, t2 = twin_tree, twin2["tree"]
                better = t1 != t2
                for k_ in set(t1) | set(t2):
                    if t1.get(k_) == t2.get(k_) or is_recorded(k_, t2.get(k_)):
                        continue
                    base_ = k_[1][:-len(b".unrecoverable")]
                    if k_[1].endswith(b".unrecoverable") and t2.get(k_) is None and is_recorded((k_[0], base_), t2.get((k_[0], base_))):
                        continue
                    better = False
                    break
                twin2["better"] = better
                res["counters"]["twin_fix_not_at_fixpoint"] = res["counters"].get("twin_fix_not_at_fixpoint", 0) + (1 if t1 != t2 else 0)
            return twin2

        fired = 0
        for (k, mode) in points:
            tpl.restore()
            r = a.cmd("fix", *fargs, variant=variant, shim={"plan": "tracked:mut:n=%d:%s" % (k, mode)})
            if not shimlog.injected(shimlog.parse(r.events)):
                continue
            fired += 1
            hit = muts[k - 1]
            replay = {"case": list(case), "cfg": cfg, "damage": how, "point": [k, mode], "of": K, "call": repr(hit)}
            label = "fix %s%s at call %d/%d (%s, %s %s)%s" % (" ".join(fargs) + " " if fargs else "", "stopped by SIGINT" if mode == "sigint" else "killed", k, K, mode, hit.op, hit.cls,
                                                            " [after a first fix, rc %s]" % prefix_fix if prefix_fix is not None else "")
            res["counters"]["fix_points_" + ("sigint" if mode == "sigint" else "kill")] = res["counters"].get("fix_points_" + ("sigint" if mode == "sigint" else "kill"), 0) + 1
            r2 = a.cmd("fix", *fargs, variant=variant)
            for s in r2.san:
                res["violations"].append(("sanitizer:" + A.san_key(s), "%s: %s" % (label, s[:2500]), replay))
            now = tree_state(a)
            diffs = []
            ref_tree = twin_tree
            if r2.rc != twin_rc:
                t2_ = second_uninterrupted_run()
                if t2_["better"] and t2_["rc"] == r2.rc:
                    ref_tree = t2_["tree"]
                else:
                    why = ""
                    if fargs == ["-m"] and r2.rc == 0 and twin_rc != 0 and not r2.tag("status"):
                        # diagnosis of one recorded mechanism (F25 family): the first run gave up on X and left
                        # 'X.unrecoverable'; for the second 'fix -m' X is missing, handle_create() renames the marker back to X,
                        # and the still damaged bytes end under the real name with exit 0 and no report
                        back = [k_ for k_, v_ in now.items() if v_[0] == "file" and twin_tree.get(k_) is None and
                                twin_tree.get((k_[0], k_[1] + b".unrecoverable")) is not None and
                                twin_tree[(k_[0], k_[1] + b".unrecoverable")][1] == v_[1] and twin_tree[(k_[0], k_[1] + b".unrecoverable")][4] == v_[4]]
                        if back:
                            why = "/unrecoverable-marker-dropped-by-a-second-fix-m(damaged-file-back-under-its-name,exit-0)"
                    res["violations"].append(("second-fix-status-differs" + why, "%s: second fix rc=%s, uninterrupted rc=%s: %s" % (label, r2.rc, twin_rc, r2.err[-250:].decode("latin-1")), replay))
                    continue
            if any((twin_tree.get(k_) is None) != (now.get(k_) is None) or (twin_tree.get(k_) is not None and now.get(k_) is not None and
                   (twin_tree[k_][0] != now[k_][0] or twin_tree[k_][1] != now[k_][1] or twin_tree[k_][4] != now[k_][4]))
                   for k_ in set(now) | set(twin_tree) if not (now.get(k_) is not None and twin_tree.get(k_) is None and k_[1].endswith(b".unrecoverable"))):
                t2_ = second_uninterrupted_run()
                if t2_["better"]:
                    ref_tree = t2_["tree"]
            def recovered_instead(key_):
                """the resumed run holds the RECORDED version of a file (bytes and time-stamp) where the uninterrupted run
                gave up and left 'name.unrecoverable': more was recovered, nothing is different or worse (seen when the
                interruption left a zero-filled, grown parity file behind that happens to be right for an all-zero file)"""
                base = key_[1][:-len(b".unrecoverable")] if key_[1].endswith(b".unrecoverable") else key_[1]
                y_ = now.get((key_[0], base))
                e0 = state0[key_[0]].get(base)
                if y_ is None or e0 is None or e0[0] != "file" or y_[0] != "file":
                    return False
                if ref_tree.get((key_[0], base)) is not None or ref_tree.get((key_[0], base + b".unrecoverable")) is None:
                    return False
                import hashlib
                return y_[1] == len(e0[1]) and y_[2] == e0[2] and y_[4] == hashlib.sha256(e0[1]).hexdigest()
            for key in sorted(set(now) | set(ref_tree)):
                x, y = ref_tree.get(key), now.get(key)
                if x is None or y is None:
                    # leftovers of the interrupted run are not part of "file contents, links and directories"
                    if y is not None and key[1].endswith(b".unrecoverable"):
                        continue
                    if recovered_instead(key):
                        res["counters"]["resumed_fix_recovered_more_than_uninterrupted"] = res["counters"].get("resumed_fix_recovered_more_than_uninterrupted", 0) + 1
                        continue
                    diffs.append((key, "missing" if y is None else "extra"))
                elif x[0] != y[0] or x[1] != y[1] or x[4] != y[4]:
                    diffs.append((key, "content/kind differs"))
                elif x[0] == "file" and x[2] != y[2] and not key[1].endswith(b".unrecoverable"):
                    # mtime: exempt only for the file whose rewrite was cut short
                    pth = os.path.join(os.fsencode(a.ddir(key[0])), key[1])
                    if hit.path != pth and not (hit.path2 and hit.path2 == pth):
                        # any file written during the interrupted run could be the cut one; be strict only
                        # for files the interrupted run never touched
                        touched = False
                        # every name of the same inode shares the time-stamp (hard links)
                        same_inode = {os.path.join(os.fsencode(a.ddir(k2[0])), k2[1]) for k2, v2 in now.items() if v2[0] == "file" and v2[3] == y[3] and k2[0] == key[0]}
                        for e in shimlog.parse(r.events):
                            if e.kind == "E" and (e.path in same_inode or e.path2 in same_inode) and e.op in ("write", "open", "utime", "trunc", "link"):
                                touched = True
                        if not touched:
                            diffs.append((key, "mtime differs"))
            if diffs and os.environ.get("VERIF_DEBUG"):
                for key, what in diffs[:3]:
                    pth = os.path.join(os.fsencode(a.ddir(key[0])), key[1])
                    print("DEBUG", what, key, "twin", twin_tree.get(key), "now", now.get(key))
                    print("  events on it in killed run:", [(e.op, e.ret, e.off, e.len) for e in shimlog.parse(r.events) if e.kind == "E" and e.path == pth])
                    print("  state0 entry:", {k2: (v2[0], len(v2[1]) if v2[0] == "file" else v2[1:], v2[2] if v2[0] == "file" else None) for k2, v2 in state0[key[0]].items() if k2 == key[1] or (v2[0] == "hardlink" and (v2[1] == key[1] or k2 == key[1]))})
            if diffs:
                why = ""
                if mode == "sigint":
                    # diagnosis of one recorded mechanism: the stopped run went on to re-create the hard links, linked a name to
                    # a file it had begun, then removed that file as created-but-unfinished - the link name keeps the partial
                    # inode, exists, and is therefore outside the selection of the second 'fix -m'
                    ev_stop = [e for e in shimlog.parse(r.events) if e.kind == "E" and e.op == "link" and e.ret == 0]

                    def stale_alias(key_):
                        # the name belongs to a recorded hard-link group (whichever name the tool took for the file), and the
                        # stopped run made a successful link() on it
                        grp = set()
                        for s_, e0 in state0[key_[0]].items():
                            if e0[0] == "hardlink":
                                tgt = e0[1][0] if isinstance(e0[1], tuple) else e0[1]
                                grp.update((s_, tgt))
                        y_ = now.get(key_)
                        if key_[1] not in grp or y_ is None or y_[0] != "file":
                            return False
                        pth_ = os.path.join(os.fsencode(a.ddir(key_[0])), key_[1])
                        return any(e.path == pth_ or e.path2 == pth_ for e in ev_stop)
                    if all(stale_alias(k_) for k_, _w in diffs):
                        why = "hard-link-name-kept-on-the-partial-file-that-the-stopped-fix-removed"
                res["violations"].append(("second-fix-result-differs:" + (why or diffs[0][1].split("/")[0]), "%s: %s" % (label, evidence.jsonable(diffs[:4])), replay))
            elif a.parity_bytes() != twin_parity and twin_rc == 0 and ref_tree is twin_tree:
                res["violations"].append(("second-fix-parity-differs", label, replay))
            if _unmatched(res) >= 4:
                break
        res["counters"]["fix_points_fired"] = fired
        res["nontrivial"] = fired > 0
        res["points"] = fired
        res["sample"] = {"cfg": cfg, "damage": how, "fix_calls": K, "calls": [("%s %s" % (e.op, e.cls)) for e in muts[:12]]}
        return res
    finally:
        if tpl:
            tpl.cleanup()
        try:
            tpl_twin.cleanup()
        except Exception:
            pass
        a.cleanup()


def dispatch(case):
    if case[0] == "sync":
        return run_sync_scenario(case)
    return run_fix_scenario(case)


def main(tier, seed, replay, jobs, scale):
    run = evidence.Run("C07", tier, seed, "fault_enumeration", RULE)
    if replay:
        import json
        cases = [tuple(json.load(open(replay))["replay"]["case"])]
    else:
        ns = int((24 if tier == "quick" else 200) * scale)
        nf = int((18 if tier == "quick" else 150) * scale)
        cases = [("sync", seed, i, tier) for i in range(ns)] + [("fix", seed, i, tier) for i in range(nf)]
    results = list(par.run_cases(dispatch, cases, jobs))
    par.absorb(run, results)
    n = sum(r.get("points", 0) for _c, r in results)
    run.evaluations = n
    run.nontrivial = set(range(n))
    run.extra["kill_points"] = n
    run.assumptions += ["a kill is process death: the page cache survives (power loss is out of reach of this technique)",
                        ".tmp / .lock / .unrecoverable leftovers are allowed",
                        "mtime exemption for files touched by the interrupted fix"]
    if n == 0:
        run.inconc("no kill point fired")
    return run.finish(min_eval=50, min_nontrivial=50)
