"""Scratch builds of /repo's *current working tree*, one sanitizer family per build.

Sources are copied from /repo (cmdline/ raid/ tommyds/ config.h) into a cache
directory keyed by a hash of (sources, flags) and compiled directly with gcc.
A cache miss only costs time; nothing here survives as an input of a check.
"""
import fcntl
import hashlib
import os
import re
import shutil
import subprocess
import sys
import time
from concurrent.futures import ThreadPoolExecutor

VERIF = os.path.dirname(os.path.dirname(os.path.abspath(__file__)))
REPO = os.environ.get("VERIF_REPO", "/repo")
CACHE = os.environ.get("VERIF_CACHE", os.path.join(VERIF, ".cache"))
GUARD = "SNAPRAID_VERIF"

BASE = ["-DHAVE_CONFIG_H", "-I.", "-g", "-pthread", "-fno-omit-frame-pointer",
        "-D" + GUARD, '-DSYSCONFDIR="/etc"', "-w"]

VARIANTS = {
    # name: (cflags, ldflags, portable_config)
    "plain": (["-O1"], [], False),
    "plain-c": (["-O1"], [], True),
    "asan": (["-O1", "-fsanitize=address,undefined", "-fno-sanitize-recover=all"],
             ["-fsanitize=address,undefined"], False),
    "asan-c": (["-O1", "-fsanitize=address,undefined", "-fno-sanitize-recover=all"],
               ["-fsanitize=address,undefined"], True),
    "tsan": (["-O1", "-fsanitize=thread"], ["-fsanitize=thread"], False),
    "tsan-c": (["-O1", "-fsanitize=thread"], ["-fsanitize=thread"], True),
    # guard off: proves the hooks are not needed to build
    "nohooks": (["-O1", "-U" + GUARD], [], False),
}

PORTABLE_OFF = ["HAVE_ASSEMBLY", "HAVE_SSE2", "HAVE_SSSE3", "HAVE_AVX2", "HAVE_SSE42"]


class BuildError(Exception):
    pass


def repo_sources():
    """List of .c units of the snapraid program, parsed from Makefile.am."""
    mk = open(os.path.join(REPO, "Makefile.am"), encoding="latin-1").read()
    m = re.search(r"snapraid_SOURCES\s*=\s*((?:.*\\\n)*.*\n)", mk)
    if not m:
        raise BuildError("cannot parse snapraid_SOURCES")
    units = [t for t in m.group(1).replace("\\\n", " ").split() if t.endswith(".c")]
    return units


def _tree_files():
    out = []
    for d in ("cmdline", "raid", "tommyds"):
        base = os.path.join(REPO, d)
        for root, _dirs, files in os.walk(base):
            for f in sorted(files):
                if f.endswith((".c", ".h")):
                    out.append(os.path.join(root, f))
    out.sort()
    return out


def config_h_path():
    p = os.path.join(REPO, "config.h")
    if os.path.exists(p):
        return p
    # config.h is a build artefact (git-ignored): fall back to the vendored copy
    return os.path.join(VERIF, "ref", "config.h")


def source_hash(extra=""):
    h = hashlib.sha256()
    for p in _tree_files() + [config_h_path(), os.path.join(REPO, "Makefile.am")]:
        h.update(p.encode())
        with open(p, "rb") as f:
            h.update(hashlib.sha256(f.read()).digest())
    h.update(extra.encode())
    return h.hexdigest()[:20]


def _prune(keep=24):
    try:
        ents = [os.path.join(CACHE, e) for e in os.listdir(CACHE) if e.startswith("b-")]
    except FileNotFoundError:
        return
    ents = [e for e in ents if os.path.isdir(e)]
    ents.sort(key=lambda e: os.path.getmtime(e))
    for e in ents[:-keep]:
        shutil.rmtree(e, ignore_errors=True)


def _copy_tree(dst, portable):
    for d in ("cmdline", "raid", "tommyds"):
        shutil.copytree(os.path.join(REPO, d), os.path.join(dst, d),
                        ignore=shutil.ignore_patterns("*.o", "*.lo", ".deps", ".dirstamp"))
    cfg = open(config_h_path(), encoding="latin-1").read()
    if portable:
        for name in PORTABLE_OFF:
            cfg = re.sub(r"(?m)^#define %s 1\s*$" % name, "/* #undef %s (verif portable) */" % name, cfg)
    with open(os.path.join(dst, "config.h"), "w", encoding="latin-1") as f:
        f.write(cfg)


def _cc(args, cwd):
    r = subprocess.run(args, cwd=cwd, stdout=subprocess.PIPE, stderr=subprocess.STDOUT)
    if r.returncode != 0:
        raise BuildError("compile failed: %s\n%s" % (" ".join(args), r.stdout.decode("latin-1")[-4000:]))


def build_dir(variant, extra_cflags=()):
    """Compile all objects of `variant`; return the directory (with *.o and the tree)."""
    cflags, ldflags, portable = VARIANTS[variant]
    key = source_hash(variant + " ".join(cflags) + " ".join(extra_cflags) + str(portable))
    os.makedirs(CACHE, exist_ok=True)
    d = os.path.join(CACHE, "b-%s-%s" % (variant, key))
    lock = open(os.path.join(CACHE, "lock-%s-%s" % (variant, key)), "w")
    fcntl.flock(lock, fcntl.LOCK_EX)
    try:
        if os.path.exists(os.path.join(d, ".done")):
            os.utime(d, None)
            return d
        shutil.rmtree(d, ignore_errors=True)
        os.makedirs(d)
        _copy_tree(d, portable)
        units = repo_sources()
        cc = os.environ.get("VERIF_CC", "gcc")
        jobs = []
        for u in units:
            obj = u[:-2].replace("/", "_") + ".o"
            jobs.append([cc] + BASE + cflags + list(extra_cflags) + ["-c", u, "-o", obj])
        with ThreadPoolExecutor(max_workers=min(16, os.cpu_count() or 4)) as ex:
            list(ex.map(lambda a: _cc(a, d), jobs))
        objs = [u[:-2].replace("/", "_") + ".o" for u in units]
        _cc([cc] + ldflags + ["-pthread", "-o", "snapraid"] + objs + ["-lblkid", "-lm"], d)
        with open(os.path.join(d, ".done"), "w") as f:
            f.write(time.strftime("%F %T"))
        _prune()
        return d
    finally:
        fcntl.flock(lock, fcntl.LOCK_UN)
        lock.close()


def snapraid(variant="plain"):
    return os.path.join(build_dir(variant), "snapraid")


def link_harness(variant, name, harness_srcs, objs_filter, extra_cflags=(), extra_ld=(), main_rename=False):
    """Link a C harness from /verif against objects of the current tree.

    objs_filter(unit_path) -> bool selects which repo units are linked in.
    With main_rename the unit cmdline/snapraid.c is recompiled with -Dmain=snapraid_main.
    """
    d = build_dir(variant)
    cflags, ldflags, _portable = VARIANTS[variant]
    h = hashlib.sha256()
    for s in harness_srcs:
        h.update(open(s, "rb").read())
    h.update((" ".join(extra_cflags) + " ".join(extra_ld) + str(main_rename)).encode())
    out = os.path.join(d, "%s-%s" % (name, h.hexdigest()[:12]))
    lock = open(out + ".lock", "w")
    fcntl.flock(lock, fcntl.LOCK_EX)
    try:
        if os.path.exists(out):
            return out
        cc = os.environ.get("VERIF_CC", "gcc")
        objs = []
        for u in repo_sources():
            if not objs_filter(u):
                continue
            if main_rename and u == "cmdline/snapraid.c":
                o = "verif_main_renamed.o"
                _cc([cc] + BASE + cflags + ["-Dmain=snapraid_main", "-c", u, "-o", o], d)
                objs.append(o)
            else:
                objs.append(u[:-2].replace("/", "_") + ".o")
        hobjs = []
        for i, s in enumerate(harness_srcs):
            o = "%s-h%d-%s.o" % (name, i, h.hexdigest()[:12])
            _cc([cc] + BASE + cflags + list(extra_cflags) + ["-I" + os.path.dirname(s), "-c", s, "-o", o], d)
            hobjs.append(o)
        tmp = out + ".tmp%d" % os.getpid()
        _cc([cc] + ldflags + ["-pthread", "-o", tmp] + hobjs + objs + list(extra_ld) + ["-lblkid", "-lm"], d)
        os.rename(tmp, out)
        return out
    finally:
        fcntl.flock(lock, fcntl.LOCK_UN)
        lock.close()


def shim():
    """Build (once per source hash) the LD_PRELOAD interposer."""
    src = os.path.join(VERIF, "shim", "vshim.c")
    hx = hashlib.sha256(open(src, "rb").read()).hexdigest()[:12]
    os.makedirs(CACHE, exist_ok=True)
    out = os.path.join(CACHE, "libvshim-%s.so" % hx)
    if os.path.exists(out):
        return out
    lock = open(out + ".lock", "w")
    fcntl.flock(lock, fcntl.LOCK_EX)
    try:
        if not os.path.exists(out):
            tmp = out + ".tmp%d" % os.getpid()
            _cc(["gcc", "-O1", "-g", "-shared", "-fPIC", "-o", tmp, src, "-ldl", "-pthread"], VERIF)
            os.rename(tmp, out)
    finally:
        fcntl.flock(lock, fcntl.LOCK_UN)
        lock.close()
    return out


def helper(name, srcs, cflags=(), ld=()):
    """Build a stand-alone helper from /verif sources (e.g. refhash)."""
    h = hashlib.sha256()
    for s in srcs:
        h.update(open(s, "rb").read())
    h.update(" ".join(cflags).encode())
    os.makedirs(CACHE, exist_ok=True)
    out = os.path.join(CACHE, "%s-%s" % (name, h.hexdigest()[:12]))
    if os.path.exists(out):
        return out
    lock = open(out + ".lock", "w")
    fcntl.flock(lock, fcntl.LOCK_EX)
    try:
        if not os.path.exists(out):
            tmp = out + ".tmp%d" % os.getpid()
            _cc(["gcc", "-O2", "-g"] + list(cflags) + ["-o", tmp] + list(srcs) + list(ld), VERIF)
            os.rename(tmp, out)
    finally:
        fcntl.flock(lock, fcntl.LOCK_UN)
        lock.close()
    return out


def asan_preload():
    r = subprocess.run(["gcc", "-print-file-name=libasan.so"], stdout=subprocess.PIPE)
    return os.path.realpath(r.stdout.decode().strip())


def tsan_preload():
    r = subprocess.run(["gcc", "-print-file-name=libtsan.so"], stdout=subprocess.PIPE)
    return os.path.realpath(r.stdout.decode().strip())


if __name__ == "__main__":
    t = time.time()
    for v in sys.argv[1:] or ["plain"]:
        print(v, snapraid(v), "%.1fs" % (time.time() - t))
