"""Reference evaluation of the documented include/exclude rules (snapraid.txt sections 7.7 and 8).
Independent glob matcher: literals, *, ?, [a-c], [!x], backslash escapes; in rooted patterns
wildcards never match a slash."""


def parse_class(p, i):
    """p[i] == '['. Returns (matcher set description, next index) or None when unterminated."""
    j = i + 1
    neg = False
    if j < len(p) and p[j] in "!^":
        neg = True
        j += 1
    items = []
    first = True
    while j < len(p):
        c = p[j]
        if c == "]" and not first:
            return (neg, items), j + 1
        first = False
        if c == "\\" and j + 1 < len(p):
            c = p[j + 1]
            j += 1
        if j + 2 < len(p) and p[j + 1] == "-" and p[j + 2] != "]":
            hi = p[j + 2]
            k = j + 2
            if hi == "\\" and k + 1 < len(p):
                hi = p[k + 1]
                k += 1
            items.append((c, hi))
            j = k + 1
        else:
            items.append((c, c))
            j += 1
    return None


def glob_match(pat, s, pathname=False):
    """pat, s: str (latin-1 decoded bytes)."""
    memo = {}

    def m(i, j):
        key = (i, j)
        if key in memo:
            return memo[key]
        r = _m(i, j)
        memo[key] = r
        return r

    def _m(i, j):
        while i < len(pat):
            c = pat[i]
            if c == "*":
                while i < len(pat) and pat[i] == "*":
                    i += 1
                k = j
                while True:
                    if m(i, k):
                        return True
                    if k >= len(s):
                        return False
                    if pathname and s[k] == "/":
                        return False
                    k += 1
            if j >= len(s):
                return False
            if c == "?":
                if pathname and s[j] == "/":
                    return False
                i += 1
                j += 1
            elif c == "[":
                pc = parse_class(pat, i)
                if pc is None:
                    if s[j] != "[":
                        return False
                    i += 1
                    j += 1
                    continue
                (neg, items), ni = pc
                if pathname and s[j] == "/":
                    return False
                hit = any(lo <= s[j] <= hi for lo, hi in items)
                if hit == neg:
                    return False
                i = ni
                j += 1
            elif c == "\\" and i + 1 < len(pat):
                if s[j] != pat[i + 1]:
                    return False
                i += 2
                j += 1
            else:
                if s[j] != c:
                    return False
                i += 1
                j += 1
        return j == len(s)

    return m(0, 0)


class Rule:
    def __init__(self, include, pattern):
        self.include = include
        self.raw = pattern
        p = pattern
        self.is_dir = p.endswith("/") and len(p) > 0
        if self.is_dir:
            p = p[:-1]
        self.rooted = p.startswith("/")
        self.pat = p[1:] if self.rooted else p
        # patterns with a slash inside must be rooted (PATH/FILE is not supported)
        self.valid = (("/" not in self.pat) or self.rooted) and len(p) > 0

    def matches(self, sub, is_dir):
        """sub: path relative to the disk root, no leading slash."""
        parts = sub.split("/")
        # every ancestor directory is a directory candidate
        for k in range(1, len(parts)):
            if self.is_dir:
                if self.rooted:
                    if glob_match(self.pat, "/".join(parts[:k]), True):
                        return True
                else:
                    if glob_match(self.pat, parts[k - 1], False):
                        return True
        if self.is_dir != is_dir:
            return False
        if self.rooted:
            return glob_match(self.pat, sub, True)
        return glob_match(self.pat, parts[-1], False)


def decide(rules, sub, is_dir=False, dir_default_include=False):
    """True = included. First matching rule decides; without a match a file is excluded iff
    the last rule is an include."""
    for r in rules:
        if r.matches(sub, is_dir):
            return r.include
    if dir_default_include:
        return True
    if rules and rules[-1].include:
        return False
    return True
