"""Block-level damage driven by the decoded block map, with truncated-hash collision control."""
import os

from . import parity as P
from . import refhash
from .content import BLK, CHG, REP


def hash_params(c, pos):
    """(kind, seed) of the hash recorded for blocks at stripe pos."""
    inf = c.info[pos] if pos < len(c.info) else None
    if inf is not None and inf[2] and c.prevhash is not None:
        return c.prevhash, c.prevhashseed
    return c.hash, c.hashseed


def recorded_hash_matches(c, f, i, data):
    pos, st, h = f.blocks[i]
    kind, seed = hash_params(c, pos)
    return refhash.digest(kind, seed, data, c.hashsize) == h


def mutate_bytes(rng, old, shape):
    n = len(old)
    if n == 0:
        return old
    if shape == "bit":
        i = rng.randrange(n)
        return old[:i] + bytes([old[i] ^ (1 << rng.randrange(8))]) + old[i + 1:]
    if shape == "byte":
        i = rng.randrange(n)
        return old[:i] + bytes([old[i] ^ rng.randint(1, 255)]) + old[i + 1:]
    if shape == "zero":
        return bytes(n)
    if shape == "ones":
        return b"\xff" * n
    new = rng.getrandbits(8 * n).to_bytes(n, "little")
    if new == old:
        new = bytes([old[0] ^ 1]) + old[1:]
    return new


def damage_file_block(arr, c, f, i, rng, shape, keep_stamp=True):
    """Corrupt block i of recorded file f in place. Returns 'ok' | 'same' | 'collision' | 'missing'."""
    d = arr.disk_names.index(c.disk_name(f.disk).decode())
    p = os.path.join(os.fsencode(arr.ddir(d)), f.sub)
    try:
        st = os.lstat(p)
        with open(p, "r+b") as fh:
            fh.seek(i * c.blocksize)
            old = fh.read(c.blocksize)
            new = mutate_bytes(rng, old, shape)
            if new == old:
                return "same"
            if recorded_hash_matches(c, f, i, new):
                return "collision"
            fh.seek(i * c.blocksize)
            fh.write(new)
    except OSError:
        return "missing"
    if keep_stamp:
        os.utime(p, ns=(st.st_atime_ns, st.st_mtime_ns))
    return "ok"


def damage_parity_block(arr, c, level, pos, rng, shape):
    views = P.parity_views(arr, c)
    v = views[level]
    i, off = v.locate(pos)
    if i is None or v.paths[i] is None:
        return "missing"
    try:
        with open(v.paths[i], "r+b") as fh:
            fh.seek(off)
            old = fh.read(c.blocksize)
            if len(old) < c.blocksize:
                return "missing"
            new = mutate_bytes(rng, old, shape)
            if new == old:
                return "same"
            fh.seek(off)
            fh.write(new)
    except OSError:
        return "missing"
    return "ok"


def swap_file_blocks(arr, c, f1, i1, f2, i2):
    """Swap two full blocks between files (time-stamps kept). Returns 'ok'|'same'|'collision'|'missing'."""
    def path(f):
        d = arr.disk_names.index(c.disk_name(f.disk).decode())
        return os.path.join(os.fsencode(arr.ddir(d)), f.sub)
    try:
        p1, p2 = path(f1), path(f2)
        s1, s2 = os.lstat(p1), os.lstat(p2)
        with open(p1, "r+b") as a, open(p2, "r+b") as b:
            a.seek(i1 * c.blocksize)
            b.seek(i2 * c.blocksize)
            x = a.read(c.blocksize)
            y = b.read(c.blocksize)
            if len(x) != c.blocksize or len(y) != c.blocksize:
                return "same"
            if x == y:
                return "same"
            if recorded_hash_matches(c, f1, i1, y) or recorded_hash_matches(c, f2, i2, x):
                return "collision"
            a.seek(i1 * c.blocksize)
            a.write(y)
            b.seek(i2 * c.blocksize)
            b.write(x)
        os.utime(p1, ns=(s1.st_atime_ns, s1.st_mtime_ns))
        os.utime(p2, ns=(s2.st_atime_ns, s2.st_mtime_ns))
    except OSError:
        return "missing"
    return "ok"
