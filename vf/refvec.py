"""Reference vectors for C16 (digests, CRCs, parity), recorded ONCE from the pristine pinned tree."""
import hashlib
import json
import os
import sys

from . import build, cmdmon, raidmon

PATH = os.path.join(build.VERIF, "ref", "vectors.json")
SEEDS = list(range(8))
PARITY_GEOMS = [(nd, np_, z) for nd in (1, 2, 3, 5, 8, 13, 32, 33, 100, 251) for np_ in (1, 2, 3, 4, 5, 6) for z in (0, 1)
                if not (z and np_ > 3)]


def observe(variant="plain"):
    out = {"hash": {}, "crc": None, "parity": {}}
    for kind in (1, 2):
        for s in SEEDS:
            rc, o, e = cmdmon.run(variant, ["hashvec", kind, s])
            if rc != 0 or not o.rstrip().endswith(b"DONE"):
                raise RuntimeError("hashvec failed rc=%s %s" % (rc, e[-2000:]))
            lines = [l for l in o.decode().splitlines() if l.startswith("H ")]
            out["hash"]["%d:%d" % (kind, s)] = {"n": len(lines), "sha256": hashlib.sha256("\n".join(lines).encode()).hexdigest(),
                                                "first": lines[:3], "last": lines[-1], "lines": lines}
    rc, o, e = cmdmon.run(variant, ["crcvec"])
    if rc != 0 or not o.rstrip().endswith(b"DONE"):
        raise RuntimeError("crcvec failed rc=%s %s" % (rc, e[-2000:]))
    lines = [l for l in o.decode().splitlines() if l.startswith("C ")]
    out["crc"] = {"n": len(lines), "lines": lines}
    for (nd, np_, z) in PARITY_GEOMS:
        for seed in (1, 2):
            r = raidmon.run(variant, ["vector", nd, np_, z, 256, seed])
            if not r["done"]:
                raise RuntimeError("vector failed %s" % r["err"][-1000:])
            out["parity"]["%d:%d:%d:%d" % (nd, np_, z, seed)] = [l for l in r["out"].splitlines() if l.startswith("VEC ")]
    return out


def make():
    o = observe()
    ref = {"hash": {k: {"n": v["n"], "sha256": v["sha256"], "first": v["first"], "last": v["last"]} for k, v in o["hash"].items()},
           "crc": {"n": o["crc"]["n"], "sha256": hashlib.sha256("\n".join(
               " ".join(l.split()[:3] + l.split()[4:]) for l in o["crc"]["lines"]).encode()).hexdigest()},
           "parity": o["parity"]}
    with open(PATH, "w") as f:
        json.dump(ref, f, indent=0)
    print("wrote", PATH, len(ref["parity"]), "parity vectors")


if __name__ == "__main__":
    make()
