"""Build and run the raidmon C harness against the raid objects of the current tree."""
import os
import re
import subprocess

from . import build

SRC = os.path.join(build.VERIF, "raidmon", "raidmon.c")
_KRE = re.compile(r"^(raid_(gen|rec)([1-6zX])_(int8|int32|int64|sse2|sse2ext|ssse3|ssse3ext|avx2|avx2ext|\w+))$")


def scrape_kernels(d):
    """Kernel entry points actually *defined* by the raid objects of this build."""
    names = set()
    objs = [os.path.join(d, f) for f in os.listdir(d) if f.startswith("raid_") and f.endswith(".o")]
    out = subprocess.run(["nm", "--defined-only"] + objs, stdout=subprocess.PIPE).stdout.decode()
    pshufb = False
    for line in out.splitlines():
        parts = line.split()
        if len(parts) == 3 and parts[1] in "Tt":
            m = _KRE.match(parts[2])
            if m and not parts[2].endswith("_tag") and not parts[2].endswith("_ptr"):
                names.add(parts[2])
        if len(parts) == 3 and parts[2] == "raid_gfmulpshufb":
            pshufb = True
    ks = []
    for n in sorted(names):
        m = _KRE.match(n)
        kind, lev, var = m.group(2), m.group(3), m.group(4)
        feat = ""
        for f in ("avx2", "ssse3", "sse2"):
            if var.startswith(f):
                feat = f
                break
        if kind == "gen":
            z = 1 if lev == "z" else 0
            level = 3 if lev == "z" else int(lev)
            ks.append((n, 0, level, z, feat, "gen_f"))
        else:
            if lev == "z":
                continue
            level = 0 if lev == "X" else int(lev)
            ks.append((n, 1, level, 0, feat, "rec_f"))
    return ks, pshufb


def binary(variant="plain"):
    d = build.build_dir(variant)
    ks, pshufb = scrape_kernels(d)
    inc = os.path.join(d, "kinc")
    os.makedirs(inc, exist_ok=True)
    lines = []
    for n, isrec, level, z, feat, typ in ks:
        lines.append("%s %s;" % (typ, n))
    lines.append("static const struct kernel kernels[] = {")
    for n, isrec, level, z, feat, typ in ks:
        lines.append('\t{ "%s", %d, %d, %d, "%s", (void*)%s },' % (n, isrec, level, z, feat, n))
    lines.append("};")
    txt = "\n".join(lines) + "\n"
    p = os.path.join(inc, "kernels.inc")
    if not os.path.exists(p) or open(p).read() != txt:
        # several threads and processes may get here at once: private temporary name, atomic rename, same content
        import threading
        tmp = "%s.tmp%d.%d" % (p, os.getpid(), threading.get_ident())
        with open(tmp, "w") as f:
            f.write(txt)
        os.rename(tmp, p)
    cflags = ["-I" + inc, "-I" + d] + (["-DHAVE_PSHUFB_TABLES"] if pshufb else [])
    import hashlib
    exe = build.link_harness(variant, "raidmon", [SRC], lambda u: u.startswith("raid/"),
                             extra_cflags=cflags + ["-DKINC_" + hashlib.sha256(txt.encode()).hexdigest()[:10]])
    return exe, [k[0] for k in ks]


def run(variant, args, timeout=3600, valgrind=False):
    exe, _ = binary(variant)
    argv = [exe] + [str(a) for a in args]
    if valgrind:
        supp = os.path.join(build.REPO, "valgrind.supp")
        argv = ["valgrind", "-q", "--error-exitcode=98", "--track-origins=no"] + \
               (["--suppressions=" + supp] if os.path.exists(supp) else []) + argv
    e = dict(os.environ)
    e["ASAN_OPTIONS"] = "detect_leaks=0:exitcode=97:abort_on_error=0:handle_segv=0:handle_abort=0:handle_sigbus=0:handle_sigill=0:allow_user_segv_handler=1"
    e["UBSAN_OPTIONS"] = "print_stacktrace=1:exitcode=97"
    try:
        r = subprocess.run(argv, stdout=subprocess.PIPE, stderr=subprocess.PIPE, env=e, timeout=timeout)
    except subprocess.TimeoutExpired as ex:
        return dict(rc=None, timeout=True, viol=[], stats={}, out=(ex.stdout or b"").decode("latin-1"), err="timeout", done=False)
    out = r.stdout.decode("latin-1")
    err = r.stderr.decode("latin-1")
    viol = []
    stats = {}
    for line in out.splitlines():
        if line.startswith("VIOL "):
            key, _, detail = line[5:].partition(" | ")
            viol.append((key.strip(), detail.strip()))
        elif line.startswith("STAT "):
            p = line.split()
            try:
                stats[p[1]] = int(p[2])
            except (ValueError, IndexError):
                pass
    return dict(rc=r.returncode, timeout=False, viol=viol, stats=stats, out=out, err=err,
                done=out.rstrip().endswith("DONE"), args=argv)
