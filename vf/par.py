"""Parallel case runner.  fn(case) -> dict with optional keys:
   key, nontrivial(bool), violations=[(key, desc, replay)], counters={}, sample, inconclusive(str)"""
import multiprocessing as mp
import os
import signal
import traceback


def _wrap(args):
    fn, case = args
    try:
        r = fn(case)
        if r is None:
            r = {}
        return case, r
    except Exception as ex:  # harness failure -> inconclusive
        from .scen import CaseError
        if isinstance(ex, CaseError):
            return case, {"inconclusive": "case-error: %s" % ex, "nontrivial": False}
        return case, {"inconclusive": "harness exception: %s" % traceback.format_exc()[-1500:], "nontrivial": False,
                      "harness_exception": True}


def run_cases(fn, cases, jobs):
    if jobs <= 1 or len(cases) <= 1:
        for c in cases:
            yield _wrap((fn, c))
        return
    ctx = mp.get_context("fork")
    with ctx.Pool(min(jobs, len(cases))) as pool:
        for res in pool.imap_unordered(_wrap, [(fn, c) for c in cases], chunksize=1):
            yield res


def absorb(run, results, replay_of=None, max_exc=3):
    """Fold case results into an evidence.Run.  Returns number of harness exceptions."""
    nexc = 0
    for case, r in results:
        run.ncases = getattr(run, "ncases", 0) + 1
        nt = r.get("nontrivial", True)
        run.case(r.get("key", repr(case)), nt)
        for k, v in (r.get("counters") or {}).items():
            run.count(k, v)
        if r.get("sample") is not None:
            run.sample(r["sample"])
        if r.get("inconclusive"):
            run.inconc(r["inconclusive"])
            run.count("inconclusive_cases")
            if r.get("harness_exception"):
                nexc += 1
                run.count("harness_exceptions")
        for v in r.get("violations") or []:
            key, desc = v[0], v[1]
            rep = v[2] if len(v) > 2 else None
            if rep is None:
                rep = {"case": case}
            run.violation(key, desc, rep)
    return nexc
