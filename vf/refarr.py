"""Reference arrays for C16: written ONCE by the pristine pinned tree (mkref), vendored under
ref/arrays/, and restored into scratch space by the check."""
import base64
import io
import json
import os
import random
import sys
import tarfile

from . import arr as A
from . import build, scen

REFDIR = os.path.join(build.VERIF, "ref", "arrays")

CONFIGS = [
    dict(name="m3-16-p1", cfg=dict(nd=3, nlev=1, hashsize=16), hash="murmur3"),
    dict(name="sp-16-p2", cfg=dict(nd=4, nlev=2, hashsize=16), hash="spooky2"),
    dict(name="m3-8-p3", cfg=dict(nd=4, nlev=3, hashsize=8), hash="murmur3"),
    dict(name="sp-4-z3", cfg=dict(nd=5, nlev=3, zmode=True, hashsize=4), hash="spooky2"),
    dict(name="m3-2-p4", cfg=dict(nd=3, nlev=4, hashsize=2), hash="murmur3"),
    dict(name="sp-16-p5", cfg=dict(nd=4, nlev=5, hashsize=16), hash="spooky2"),
    dict(name="m3-16-p6", cfg=dict(nd=6, nlev=6, hashsize=16, blocksize_k=2), hash="murmur3"),
    dict(name="sp-8-p2-split", cfg=dict(nd=3, nlev=2, hashsize=8, splits=[4, 3]), hash="spooky2", parity_limit=9000),
    dict(name="m3-16-p1-split", cfg=dict(nd=2, nlev=1, hashsize=16, splits=[4]), hash="murmur3", parity_limit=7000),
    dict(name="rehash-m3-to-sp", cfg=dict(nd=3, nlev=2, hashsize=16), hash="murmur3", rehash="spooky2"),
    dict(name="rehash-sp-to-m3", cfg=dict(nd=3, nlev=1, hashsize=16), hash="spooky2", rehash="murmur3"),
    dict(name="sp-16-p3-holes", cfg=dict(nd=5, nlev=3, hashsize=16), hash="spooky2", fragment=True),
    # a data disk was retired (position hole) and a disk added later took the hole: the map records are no longer in
    # position order (d1@0, d3@2, d4@1)
    dict(name="sp-16-p2-maphole", cfg=dict(nd=3, nlev=2, hashsize=16), hash="spooky2", maphole=True),
]


# arrays left in the middle of a sync by the reference version (new files recorded but not synced yet): what was synced
# before must stay repairable by later versions. "synced" in the manifest lists the files whose blocks are all synced.
PARTIAL = [
    dict(name="partial-m3-16-p1", cfg=dict(nd=3, nlev=1, hashsize=16), hash="murmur3", how=["-B", "1"]),
    dict(name="partial-sp-16-p2", cfg=dict(nd=4, nlev=2, hashsize=16), hash="spooky2", how=["-S", "1", "-B", "2"]),
    dict(name="partial-m3-8-z3", cfg=dict(nd=4, nlev=3, zmode=True, hashsize=8), hash="murmur3", how=["--test-kill-after-sync"]),
    dict(name="partial-sp-16-p1-kill", cfg=dict(nd=2, nlev=1, hashsize=16), hash="spooky2", how=["--test-kill-after-sync"]),
]


def make_partial():
    """Run against a build of the pinned commit only (VERIF_REPO)."""
    from . import content as cnt
    os.makedirs(REFDIR, exist_ok=True)
    for spec in PARTIAL:
        rng = random.Random("refp-%s" % spec["name"])
        cfg = dict(spec["cfg"])
        cfg.setdefault("ncontent", 2)
        cfg["content_on_data"] = False
        a, fs = scen.make(rng, cfg, "mkref")
        try:
            A.populate(fs, rng, nfiles=10, hostile=0.1, links=False, dirs=False)
            r = a.cmd("sync", "--test-force-" + spec["hash"])
            assert r.rc == 0, r.err
            # additions only, into positions never used before, plus a few deletions for the last spec kinds
            scen.mutate(fs, rng, 8, hostile=0.1, ops=["create", "create", "create", "append"])
            r = a.cmd("sync", "-E", "-Z", *spec["how"])
            c = a.load_content()
            synced = []
            for f in c.files:
                if f.blocks and all(b[1] == cnt.BLK for b in f.blocks):
                    synced.append([c.disk_name(f.disk).decode(), base64.b64encode(f.sub).decode()])
            pend = sum(1 for f in c.files for b in f.blocks if b[1] != cnt.BLK)
            assert synced and pend, (len(synced), pend)
            spec2 = dict(spec, partial=True, synced=synced, pending_blocks=pend)
            save(a, spec2, [])
            print("made", spec["name"], "synced files", len(synced), "pending blocks", pend)
        finally:
            a.cleanup()


def make_all():
    """Run from the pristine tree only."""
    os.makedirs(REFDIR, exist_ok=True)
    for i, spec in enumerate(CONFIGS):
        rng = random.Random("ref-%s" % spec["name"])
        cfg = dict(spec["cfg"])
        cfg.setdefault("ncontent", 2)
        cfg["content_on_data"] = False
        a, fs = scen.make(rng, cfg, "mkref")
        try:
            A.populate(fs, rng, nfiles=(30 if spec.get("fragment") else 14), hostile=0.1)
            extra = []
            if spec.get("parity_limit"):
                extra = ["--test-parity-limit", str(spec["parity_limit"])]
            r = a.cmd("sync", "--test-force-" + spec["hash"], *extra)
            assert r.rc == 0, r.err
            if spec.get("fragment"):
                scen.mutate(fs, rng, 8, hostile=0.1, ops=["delete", "create", "overwrite", "append"])
                r = a.cmd("sync", "-E", "-Z", *extra)
                assert r.rc == 0, r.err
                scen.mutate(fs, rng, 6, hostile=0.1, ops=["delete", "create", "truncate"])
                r = a.cmd("sync", "-E", "-Z", *extra)
                assert r.rc == 0, r.err
            if spec.get("maphole"):
                fs.clear_disk(1)
                r = a.cmd("sync", "-E")
                assert r.rc == 0, r.err
                a.drop_disk(1)
                nd_ = a.add_disk()
                fs.entries[nd_] = {}
                A.populate(fs, rng, nfiles=6, hostile=0.1, disks=[nd_], links=False, dirs=False)
                r = a.cmd("sync")
                assert r.rc == 0, r.err
                c_ = a.load_content()
                order = [(m["name"], m["pos"]) for m in c_.maps]
                assert [p_ for _n, p_ in order] != sorted(p_ for _n, p_ in order), order
                spec = dict(spec, disk_names=list(a.disk_names), disks=list(a.disks), map_order=[[n_.decode(), p_] for n_, p_ in order])
            if spec.get("rehash"):
                r = a.cmd("rehash", "--test-force-" + spec["rehash"])
                assert r.rc == 0, r.err
                r = a.cmd("scrub", "--test-force-scrub-even")
                assert r.rc == 0, r.err
            r = a.cmd("check", *extra)
            assert r.rc == 0, r.err
            save(a, spec, extra)
        finally:
            a.cleanup()
        print("made", spec["name"])


def save(a, spec, extra):
    buf = io.BytesIO()
    man = {"spec": spec, "cfg": spec["cfg"], "extra": extra, "entries": []}
    with tarfile.open(fileobj=buf, mode="w:gz", format=tarfile.PAX_FORMAT) as tf:
        for top in [a.disk_names[i] for i in a.disks] + ["par", "cnt"]:
            base = os.path.join(a.root, top)
            for root, dirs, files in os.walk(os.fsencode(base)):
                for n in dirs + files:
                    p = os.path.join(root, n)
                    rel = p[len(os.fsencode(a.root)) + 1:]
                    st = os.lstat(p)
                    man["entries"].append([base64.b64encode(rel).decode(), st.st_mtime_ns])
            tf.add(base, arcname=top)
    with open(os.path.join(REFDIR, spec["name"] + ".tar.gz"), "wb") as f:
        f.write(buf.getvalue())
    with open(os.path.join(REFDIR, spec["name"] + ".json"), "w") as f:
        json.dump(man, f)


def names():
    return [s["name"] for s in CONFIGS + PARTIAL if os.path.exists(os.path.join(REFDIR, s["name"] + ".tar.gz"))]


def restore(name, tag="c16"):
    man = json.load(open(os.path.join(REFDIR, name + ".json")))
    cfg = dict(man["cfg"])
    cfg.setdefault("ncontent", 2)
    cfg["content_on_data"] = False
    root = A.scratch_root(tag)
    with tarfile.open(os.path.join(REFDIR, name + ".tar.gz"), "r:gz") as tf:
        tf.extractall(root)
    for rel64, mt in sorted(man["entries"], key=lambda x: -len(x[0])):
        p = os.path.join(os.fsencode(root), base64.b64decode(rel64))
        try:
            os.utime(p, ns=(mt, mt), follow_symlinks=False)
        except OSError:
            pass
    if man["spec"].get("disk_names"):
        a = A.Array(root, disk_names=list(man["spec"]["disk_names"]), **dict(cfg, nd=len(man["spec"]["disk_names"])))
        a.disks = list(man["spec"]["disks"])
        a.write_conf()
    else:
        a = A.Array(root, **cfg)
    return a, man


if __name__ == "__main__":
    if "partial" in sys.argv[1:]:
        make_partial()
    elif "only" in sys.argv[1:]:
        only = sys.argv[sys.argv.index("only") + 1:]
        CONFIGS[:] = [c_ for c_ in CONFIGS if c_["name"] in only]
        make_all()
    else:
        make_all()
