"""Reference content files for C16: content files WRITTEN by the pinned reference version (its `test-rewrite` of states
constructed with boundary values: 64-bit time-stamps and inodes, varint boundaries, all record kinds, format 2 and 3),
stored together with what the reference version prints for them (`list -l`, `status -G -l`).

make() must run against a build of the pinned commit:   VERIF_REPO=<worktree of the pinned commit> python3 -m vf.refcnt
The check part (vf/checks/c16.py) loads every stored file with the tree under test."""
import base64
import gzip
import json
import os
import random

from . import arr as A
from . import build
from . import content as cnt

PATH = os.path.join(build.VERIF, "ref", "contents.json.gz")
NVEC = 60
MAXLEN = 40000


def _install(rng, idx):
    """Build constructed state idx in a scratch array. Returns (array, content bytes, now) or None."""
    from .checks import c10
    c, acfg, now = c10.construct(rng, idx)
    if not c.maps:
        return None
    a = A.Array(A.scratch_root("c16c"), **acfg)
    bs = c.blocksize
    for l, p in enumerate(c.parities):
        paths = a.ppaths(l)
        remaining = c.blockmax * bs
        for s, sp in enumerate(p["splits"]):
            sp["path"] = os.fsencode(paths[s])
            if s == len(p["splits"]) - 1:
                sp["size"] = remaining
            else:
                part = (rng.randint(0, remaining // bs)) * bs if remaining else 0
                sp["size"] = part
                remaining -= part
    return a, acfg, cnt.encode(c), now


def dumps_of(a, now):
    from .checks import c10
    r1, files, links = c10.list_dump(a)
    r2, blocks, summ = c10.status_dump(a)
    return (r1.rc, r2.rc,
            [[base64.b64encode(x).decode() if isinstance(x, bytes) else x for x in f] for f in files],
            [[base64.b64encode(x).decode() for x in l] for l in links],
            {str(k): list(v) for k, v in sorted(blocks.items())}, summ)


def normalised(data):
    """Content bytes with the recorded parity paths blanked (they name the scratch directory of the run)."""
    c = cnt.decode(data)
    for p in c.parities:
        for sp in p["splits"]:
            sp["path"] = b""
    return cnt.encode(c)


def make():
    out = []
    idx = 0
    while len(out) < NVEC and idx < 4000:
        idx += 1
        rng = random.Random("refcnt-%d" % idx)
        got = _install(rng, idx)
        if got is None:
            continue
        a, acfg, data, now = got
        try:
            if len(data) > MAXLEN:
                continue
            for p in a.cpaths():
                with open(p, "wb") as f:
                    f.write(data)
            r = a.cmd("test-rewrite", shim={"time": now + 100, "log": False})
            if r.rc != 0:
                raise RuntimeError("reference refuses constructed content %d: %s" % (idx, r.err[-300:]))
            written = open(a.cpaths()[0], "rb").read()
            d = dumps_of(a, now)
            if d[0] != 0 or d[1] != 0:
                raise RuntimeError("reference list/status fails on its own content %d" % idx)
            out.append({"idx": idx, "acfg": acfg, "now": now, "content": base64.b64encode(written).decode(), "dumps": d,
                        "encoder_equal": written == data})
        finally:
            a.cleanup()
    with gzip.open(PATH, "wt") as f:
        json.dump({"made_from": os.environ.get("VERIF_REPO", "/repo"), "vectors": out}, f)
    print("wrote", PATH, len(out), "vectors;", sum(1 for v in out if v["encoder_equal"]), "byte-identical to the encoder's normal form")


def load():
    with gzip.open(PATH, "rt") as f:
        return json.load(f)["vectors"]


if __name__ == "__main__":
    make()
