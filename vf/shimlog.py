"""Parser for the event log written by libvshim.so."""
import re

_PCT = re.compile(rb"%([0-9a-f]{2})")


def unesc(b):
    if b == b"-":
        return b""
    return _PCT.sub(lambda m: bytes([int(m.group(1), 16)]), b)


class Ev:
    __slots__ = ("kind", "seq", "tid", "op", "cls", "ret", "errno", "off", "len", "flags", "path", "path2", "rule", "action")

    def __repr__(self):
        if self.kind == "I":
            return "I#%d rule%d %s %s %s %r" % (self.seq, self.rule, self.action, self.op, self.cls, self.path)
        return "E#%d %s %s ret=%d off=%d len=%d %r" % (self.seq, self.op, self.cls, self.ret, self.off, self.len, self.path)


def parse(path):
    evs = []
    try:
        data = open(path, "rb").read()
    except (FileNotFoundError, TypeError):
        return evs
    for line in data.split(b"\n"):
        f = line.split(b" ")
        if len(f) < 6:
            continue
        e = Ev()
        try:
            if f[0] == b"E" and len(f) >= 11:
                e.kind = "E"
                e.seq = int(f[1]); e.tid = int(f[2]); e.op = f[3].decode(); e.cls = f[4].decode()
                e.ret = int(f[5]); e.errno = int(f[6]); e.off = int(f[7]); e.len = int(f[8]); e.flags = int(f[9])
                e.path = unesc(f[10]); e.path2 = unesc(f[11]) if len(f) > 11 else None
                e.rule = None; e.action = None
            elif f[0] == b"I" and len(f) >= 7:
                e.kind = "I"
                e.seq = int(f[1]); e.rule = int(f[2]); e.action = f[3].decode(); e.op = f[4].decode()
                e.cls = f[5].decode(); e.path = unesc(f[6])
                e.tid = 0; e.ret = 0; e.errno = 0; e.off = 0; e.len = 0; e.flags = 0; e.path2 = None
            else:
                continue
        except ValueError:
            continue
        evs.append(e)
    evs.sort(key=lambda x: x.seq)
    return evs


MUT_OPS = ("write", "fsync", "trunc", "alloc", "rename", "unlink", "mkdir", "link", "utime")
O_CREAT = 0o100
O_TRUNC = 0o1000


def is_mut(e):
    if e.kind != "E":
        return False
    if e.op in MUT_OPS:
        return True
    return e.op == "open" and (e.flags & (O_CREAT | O_TRUNC)) != 0


def injected(evs):
    return [e for e in evs if e.kind == "I"]
