"""Build/run the cmdmon harness (all cmdline objects of the current tree, main renamed)."""
import os
import subprocess

from . import build

SRC = os.path.join(build.VERIF, "cmdmon", "cmdmon.c")


def binary(variant="plain"):
    d = build.build_dir(variant)
    return build.link_harness(variant, "cmdmon", [SRC], lambda u: True, extra_cflags=["-I" + d], main_rename=True)


def run(variant, args, stdin=None, timeout=600):
    exe = binary(variant)
    e = dict(os.environ)
    e["ASAN_OPTIONS"] = "detect_leaks=0:exitcode=97"
    e["UBSAN_OPTIONS"] = "print_stacktrace=1:exitcode=97"
    r = subprocess.run([exe] + [str(a) for a in args], input=stdin, stdout=subprocess.PIPE, stderr=subprocess.PIPE,
                       env=e, timeout=timeout)
    return r.returncode, r.stdout, r.stderr


def base_stream(seedidx, n=1100 + 64):
    x = (0x9E3779B9 * (seedidx + 1) + 12345) & 0xFFFFFFFF
    out = bytearray()
    for _ in range(n):
        x = (x * 1664525 + 1013904223) & 0xFFFFFFFF
        out.append(x >> 24)
    return bytes(out)


def seed_bytes(seedidx):
    if seedidx == 0:
        return bytes(16)
    return bytes((seedidx * 17 + i * 29 + 3) & 0xFF for i in range(16))
