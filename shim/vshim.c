/*
 * libvshim.so - LD_PRELOAD interposer for SnapRAID runs (no source change needed).
 *
 *  - event log of file-system calls at the libc boundary (VSHIM_LOG)
 *  - fault / delay / signal / kill plans (VSHIM_PLAN), every firing logged as INJ
 *  - frozen wall clock (VSHIM_TIME)
 *
 * VSHIM_MAP  = "class=prefix;class=prefix;..."   first matching prefix wins
 * VSHIM_PLAN = "sel:op:when:action;..."
 *     sel    = class name | * | tracked (any class but other) | sub=<substring of path> | path=<exact path>
 *     op     = open|read|write|fsync|trunc|alloc|rename|unlink|mkdir|link|utime|close|mut
 *              (mut = write,fsync,trunc,alloc,rename,unlink,mkdir,link,utime and creating/truncating opens)
 *     when   = n=<k> (k-th call matching sel+op, 1-based, process wide) | off=<lo>-<hi> | all
 *     action = err=<EIO|ENOSPC|EACCES|ENOENT|n> | short=<bytes> | delay=<ms> | sigint | sigterm |
 *              kill-before | kill-after | kill-mid | corrupt (write the data with one byte flipped, report success)
 * Event line: "E <seq> <tid> <op> <class> <ret> <errno> <off> <len> <flags> <path> [<path2>]"
 * Injection : "I <seq> <rule#> <action> <op> <class> <path>"
 */
#define _GNU_SOURCE
#include <dlfcn.h>
#include <errno.h>
#include <fcntl.h>
#include <pthread.h>
#include <signal.h>
#include <stdarg.h>
#include <stdint.h>
#include <stdio.h>
#include <stdlib.h>
#include <string.h>
#include <sys/stat.h>
#include <sys/syscall.h>
#include <sys/time.h>
#include <sys/types.h>
#include <time.h>
#include <unistd.h>

#define MAXFD 4096
#define MAXRULE 128
#define MAXMAP 64

enum { OP_OPEN, OP_READ, OP_WRITE, OP_FSYNC, OP_TRUNC, OP_ALLOC, OP_RENAME, OP_UNLINK, OP_MKDIR, OP_LINK, OP_UTIME, OP_CLOSE, OP_MUT, OP_N };
static const char *opname[] = { "open", "read", "write", "fsync", "trunc", "alloc", "rename", "unlink", "mkdir", "link", "utime", "close", "mut" };

enum { A_ERR, A_SHORT, A_DELAY, A_SIGINT, A_SIGTERM, A_KILL_BEFORE, A_KILL_AFTER, A_KILL_MID, A_CORRUPT };
static const char *actname[] = { "err", "short", "delay", "sigint", "sigterm", "kill-before", "kill-after", "kill-mid", "corrupt" };

struct rule {
	char sel[600];
	int op;
	int when; /* 0 all, 1 n=, 2 off= */
	long n;
	long long lo, hi;
	int action;
	long arg;
	long count; /* matching calls so far */
};

static struct rule rules[MAXRULE];
static int nrules;
static struct { char cls[16]; char prefix[512]; size_t plen; } maps[MAXMAP];
static int nmaps;
static char *fdpath[MAXFD];
static pthread_mutex_t mtx = PTHREAD_MUTEX_INITIALIZER;
static int logfd = -1;
static int active;
static long seq;
static int have_time;
static long long fake_time;

static int (*r_open)(const char *, int, ...);
static int (*r_open64)(const char *, int, ...);
static int (*r_openat)(int, const char *, int, ...);
static int (*r_creat)(const char *, mode_t);
static ssize_t (*r_read)(int, void *, size_t);
static ssize_t (*r_pread)(int, void *, size_t, off_t);
static ssize_t (*r_write)(int, const void *, size_t);
static ssize_t (*r_pwrite)(int, const void *, size_t, off_t);
static int (*r_fsync)(int);
static int (*r_fdatasync)(int);
static int (*r_ftruncate)(int, off_t);
static int (*r_fallocate)(int, int, off_t, off_t);
static int (*r_posix_fallocate)(int, off_t, off_t);
static int (*r_rename)(const char *, const char *);
static int (*r_unlink)(const char *);
static int (*r_remove)(const char *);
static int (*r_rmdir)(const char *);
static int (*r_mkdir)(const char *, mode_t);
static int (*r_link)(const char *, const char *);
static int (*r_symlink)(const char *, const char *);
static int (*r_futimens)(int, const struct timespec *);
static int (*r_utimensat)(int, const char *, const struct timespec *, int);
static int (*r_futimes)(int, const struct timeval *);
static int (*r_lutimes)(const char *, const struct timeval *);
static int (*r_utimes)(const char *, const struct timeval *);
static int (*r_close)(int);
static time_t (*r_time)(time_t *);
static int (*r_gettimeofday)(struct timeval *, void *);
static int (*r_clock_gettime)(clockid_t, struct timespec *);

#define RESOLVE(name) do { if (!r_##name) r_##name = dlsym(RTLD_NEXT, #name); } while (0)

static void resolve_all(void)
{
	RESOLVE(open); RESOLVE(open64); RESOLVE(openat); RESOLVE(creat); RESOLVE(read); RESOLVE(pread);
	RESOLVE(write); RESOLVE(pwrite); RESOLVE(fsync); RESOLVE(fdatasync); RESOLVE(ftruncate);
	RESOLVE(fallocate); RESOLVE(posix_fallocate); RESOLVE(rename); RESOLVE(unlink); RESOLVE(remove);
	RESOLVE(rmdir); RESOLVE(mkdir); RESOLVE(link); RESOLVE(symlink); RESOLVE(futimens); RESOLVE(utimensat);
	RESOLVE(futimes); RESOLVE(lutimes); RESOLVE(utimes); RESOLVE(close); RESOLVE(time); RESOLVE(gettimeofday);
	RESOLVE(clock_gettime);
}

static int parse_errno(const char *s)
{
	if (!strcmp(s, "EIO")) return EIO;
	if (!strcmp(s, "ENOSPC")) return ENOSPC;
	if (!strcmp(s, "EACCES")) return EACCES;
	if (!strcmp(s, "ENOENT")) return ENOENT;
	if (!strcmp(s, "EINTR")) return EINTR;
	if (!strcmp(s, "EFBIG")) return EFBIG;
	if (!strcmp(s, "EDQUOT")) return EDQUOT;
	if (!strcmp(s, "EROFS")) return EROFS;
	return atoi(s);
}

static void parse_plan(const char *plan)
{
	char *dup = strdup(plan), *save = 0, *tok;
	for (tok = strtok_r(dup, ";", &save); tok && nrules < MAXRULE; tok = strtok_r(0, ";", &save)) {
		struct rule *r = &rules[nrules];
		char *f[4];
		int i, nf = 0;
		char *p = tok;
		/* split on ':' from the right so that sel may not contain ':' (it never does) */
		f[nf++] = p;
		while (nf < 4 && (p = strchr(p, ':')) != 0) {
			*p++ = 0;
			f[nf++] = p;
		}
		if (nf != 4)
			continue;
		memset(r, 0, sizeof(*r));
		snprintf(r->sel, sizeof(r->sel), "%s", f[0]);
		r->op = -1;
		for (i = 0; i < OP_N; ++i)
			if (!strcmp(f[1], opname[i]))
				r->op = i;
		if (r->op < 0)
			continue;
		if (!strncmp(f[2], "n=", 2)) {
			r->when = 1;
			r->n = atol(f[2] + 2);
		} else if (!strncmp(f[2], "off=", 4)) {
			r->when = 2;
			sscanf(f[2] + 4, "%lld-%lld", &r->lo, &r->hi);
		} else {
			r->when = 0;
		}
		if (!strncmp(f[3], "err=", 4)) {
			r->action = A_ERR;
			r->arg = parse_errno(f[3] + 4);
		} else if (!strncmp(f[3], "short=", 6)) {
			r->action = A_SHORT;
			r->arg = atol(f[3] + 6);
		} else if (!strncmp(f[3], "delay=", 6)) {
			r->action = A_DELAY;
			r->arg = atol(f[3] + 6);
		} else if (!strcmp(f[3], "sigint")) {
			r->action = A_SIGINT;
		} else if (!strcmp(f[3], "sigterm")) {
			r->action = A_SIGTERM;
		} else if (!strcmp(f[3], "kill-before")) {
			r->action = A_KILL_BEFORE;
		} else if (!strcmp(f[3], "kill-after")) {
			r->action = A_KILL_AFTER;
		} else if (!strcmp(f[3], "kill-mid")) {
			r->action = A_KILL_MID;
		} else if (!strcmp(f[3], "corrupt")) {
			r->action = A_CORRUPT;
		} else {
			continue;
		}
		++nrules;
	}
	free(dup);
}

static void parse_map(const char *m)
{
	char *dup = strdup(m), *save = 0, *tok;
	for (tok = strtok_r(dup, ";", &save); tok && nmaps < MAXMAP; tok = strtok_r(0, ";", &save)) {
		char *eq = strchr(tok, '=');
		if (!eq)
			continue;
		*eq = 0;
		snprintf(maps[nmaps].cls, sizeof(maps[nmaps].cls), "%s", tok);
		snprintf(maps[nmaps].prefix, sizeof(maps[nmaps].prefix), "%s", eq + 1);
		maps[nmaps].plen = strlen(maps[nmaps].prefix);
		++nmaps;
	}
	free(dup);
}

__attribute__((constructor)) static void vshim_init(void)
{
	const char *s;
	resolve_all();
	if ((s = getenv("VSHIM_MAP")) != 0)
		parse_map(s);
	if ((s = getenv("VSHIM_PLAN")) != 0)
		parse_plan(s);
	if ((s = getenv("VSHIM_TIME")) != 0 && *s) {
		have_time = 1;
		fake_time = atoll(s);
	}
	if ((s = getenv("VSHIM_LOG")) != 0 && *s) {
		logfd = r_open(s, O_WRONLY | O_CREAT | O_APPEND | O_CLOEXEC, 0600);
		if (logfd >= 0 && logfd < 100) {
			/* move away from low numbers so that it does not disturb fd allocation order */
			int n = fcntl(logfd, F_DUPFD_CLOEXEC, 900);
			if (n >= 0) {
				r_close(logfd);
				logfd = n;
			}
		}
	}
	active = 1;
}

static const char *classify(const char *path)
{
	int i;
	size_t n;
	if (!path)
		return "other";
	n = strlen(path);
	for (i = 0; i < nmaps; ++i) {
		if (maps[i].plen <= n && memcmp(path, maps[i].prefix, maps[i].plen) == 0) {
			/* content/lock entries are full paths possibly followed by a suffix (.tmp, .lock) */
			return maps[i].cls;
		}
	}
	return "other";
}

static void esc(char *dst, size_t n, const char *src)
{
	size_t o = 0;
	if (!src)
		src = "-";
	if (!*src)
		src = "-";
	for (; *src && o + 4 < n; ++src) {
		unsigned char c = (unsigned char)*src;
		if (c <= 0x20 || c == '%' || c >= 0x7f)
			o += snprintf(dst + o, n - o, "%%%02x", c);
		else
			dst[o++] = c;
	}
	dst[o] = 0;
}

static long next_seq(void)
{
	return __atomic_add_fetch(&seq, 1, __ATOMIC_SEQ_CST);
}

static void log_event(const char *op, const char *cls, long long ret, int err, long long off, long long len, int flags, const char *p1, const char *p2)
{
	char buf[2600], e1[1100], e2[1100];
	int n;
	if (logfd < 0)
		return;
	esc(e1, sizeof(e1), p1);
	if (p2) {
		esc(e2, sizeof(e2), p2);
		n = snprintf(buf, sizeof(buf), "E %ld %ld %s %s %lld %d %lld %lld %d %s %s\n", next_seq(), (long)syscall(SYS_gettid), op, cls, ret, err, off, len, flags, e1, e2);
	} else {
		n = snprintf(buf, sizeof(buf), "E %ld %ld %s %s %lld %d %lld %lld %d %s\n", next_seq(), (long)syscall(SYS_gettid), op, cls, ret, err, off, len, flags, e1);
	}
	if (n > 0 && r_write(logfd, buf, n) < 0) {
	}
}

static void log_inj(int ri, const char *op, const char *cls, const char *path)
{
	char buf[1400], e1[1100];
	int n;
	if (logfd < 0)
		return;
	esc(e1, sizeof(e1), path);
	n = snprintf(buf, sizeof(buf), "I %ld %d %s %s %s %s\n", next_seq(), ri, actname[rules[ri].action], op, cls, e1);
	if (n > 0 && r_write(logfd, buf, n) < 0) {
	}
}

static int is_mut(int op, int flags)
{
	switch (op) {
	case OP_WRITE: case OP_FSYNC: case OP_TRUNC: case OP_ALLOC: case OP_RENAME: case OP_UNLINK:
	case OP_MKDIR: case OP_LINK: case OP_UTIME:
		return 1;
	case OP_OPEN:
		return (flags & (O_CREAT | O_TRUNC)) != 0;
	}
	return 0;
}

/* returns rule index that fires for this call, or -1 */
static int match(int op, int flags, const char *cls, const char *path, long long off, long long len)
{
	int i, fire = -1;
	if (!active || !nrules)
		return -1;
	for (i = 0; i < nrules; ++i) {
		struct rule *r = &rules[i];
		if (r->op == OP_MUT) {
			if (!is_mut(op, flags))
				continue;
		} else if (r->op != op) {
			continue;
		}
		if (!strcmp(r->sel, "*")) {
		} else if (!strcmp(r->sel, "tracked")) {
			if (!strcmp(cls, "other"))
				continue;
		} else if (!strncmp(r->sel, "sub=", 4)) {
			if (!path || !strstr(path, r->sel + 4))
				continue;
		} else if (!strncmp(r->sel, "path=", 5)) {
			if (!path || strcmp(path, r->sel + 5) != 0)
				continue;
		} else if (strcmp(r->sel, cls) != 0) {
			continue;
		}
		if (r->when == 2) {
			if (!(off < r->hi && off + (len > 0 ? len : 1) > r->lo))
				continue;
			__atomic_add_fetch(&r->count, 1, __ATOMIC_SEQ_CST);
		} else {
			long c = __atomic_add_fetch(&r->count, 1, __ATOMIC_SEQ_CST);
			if (r->when == 1 && c != r->n)
				continue;
		}
		if (fire < 0)
			fire = i;
	}
	return fire;
}

static void die_now(void)
{
	kill(getpid(), SIGKILL);
	for (;;)
		pause();
}

/* pre-action: returns 1 when the call must fail with errno set (A_ERR) */
static int pre(int ri, const char *op, const char *cls, const char *path)
{
	struct rule *r;
	if (ri < 0)
		return 0;
	r = &rules[ri];
	switch (r->action) {
	case A_ERR:
		log_inj(ri, op, cls, path);
		errno = (int)r->arg;
		return 1;
	case A_DELAY: {
		struct timespec ts = { r->arg / 1000, (r->arg % 1000) * 1000000L };
		log_inj(ri, op, cls, path);
		nanosleep(&ts, 0);
		return 0;
	}
	case A_SIGINT:
		log_inj(ri, op, cls, path);
		kill(getpid(), SIGINT);
		return 0;
	case A_SIGTERM:
		log_inj(ri, op, cls, path);
		kill(getpid(), SIGTERM);
		return 0;
	case A_KILL_BEFORE:
		log_inj(ri, op, cls, path);
		die_now();
		return 0;
	}
	return 0;
}

static void post(int ri, const char *op, const char *cls, const char *path)
{
	if (ri < 0)
		return;
	if (rules[ri].action == A_KILL_AFTER || rules[ri].action == A_KILL_MID) {
		log_inj(ri, op, cls, path);
		die_now();
	}
}

static void set_fdpath(int fd, const char *path)
{
	if (fd < 0 || fd >= MAXFD)
		return;
	pthread_mutex_lock(&mtx);
	free(fdpath[fd]);
	fdpath[fd] = path ? strdup(path) : 0;
	pthread_mutex_unlock(&mtx);
}

static void get_fdpath(int fd, char *buf, size_t n)
{
	buf[0] = 0;
	if (fd < 0 || fd >= MAXFD)
		return;
	pthread_mutex_lock(&mtx);
	if (fdpath[fd])
		snprintf(buf, n, "%s", fdpath[fd]);
	pthread_mutex_unlock(&mtx);
}

/* ------------------------------------------------------------------ open family */
static int do_open(int which, int dirfd, const char *path, int flags, mode_t mode)
{
	const char *cls = classify(path);
	int ri, fd, e;
	resolve_all();
	ri = match(OP_OPEN, flags, cls, path, 0, 0);
	if (pre(ri, "open", cls, path)) {
		log_event("open", cls, -1, errno, 0, 0, flags, path, 0);
		return -1;
	}
	if (which == 0)
		fd = r_open(path, flags, mode);
	else if (which == 1)
		fd = r_open64(path, flags, mode);
	else
		fd = r_openat(dirfd, path, flags, mode);
	e = errno;
	if (fd >= 0 && active)
		set_fdpath(fd, path);
	if (active && strcmp(cls, "other") != 0)
		log_event("open", cls, fd, fd < 0 ? e : 0, 0, 0, flags, path, 0);
	post(ri, "open", cls, path);
	errno = e;
	return fd;
}

int open(const char *path, int flags, ...)
{
	mode_t mode = 0;
	if (flags & (O_CREAT | O_TMPFILE)) {
		va_list ap;
		va_start(ap, flags);
		mode = va_arg(ap, mode_t);
		va_end(ap);
	}
	return do_open(0, 0, path, flags, mode);
}

int open64(const char *path, int flags, ...)
{
	mode_t mode = 0;
	if (flags & (O_CREAT | O_TMPFILE)) {
		va_list ap;
		va_start(ap, flags);
		mode = va_arg(ap, mode_t);
		va_end(ap);
	}
	return do_open(1, 0, path, flags, mode);
}

int openat(int dirfd, const char *path, int flags, ...)
{
	mode_t mode = 0;
	if (flags & (O_CREAT | O_TMPFILE)) {
		va_list ap;
		va_start(ap, flags);
		mode = va_arg(ap, mode_t);
		va_end(ap);
	}
	if (dirfd != AT_FDCWD && path && path[0] != '/') {
		resolve_all();
		return r_openat(dirfd, path, flags, mode);
	}
	return do_open(2, dirfd, path, flags, mode);
}

int close(int fd)
{
	char path[1024];
	int ret, e;
	resolve_all();
	if (!active || fd == logfd)
		return r_close(fd);
	get_fdpath(fd, path, sizeof(path));
	ret = r_close(fd);
	e = errno;
	if (path[0]) {
		const char *cls = classify(path);
		if (strcmp(cls, "other") != 0)
			log_event("close", cls, ret, ret < 0 ? e : 0, 0, 0, 0, path, 0);
		set_fdpath(fd, 0);
	}
	errno = e;
	return ret;
}

/* ------------------------------------------------------------------ read / write */
static ssize_t do_rw(int isw, int positional, int fd, void *buf, size_t len, off_t off)
{
	char path[1024];
	const char *cls;
	const char *op = isw ? "write" : "read";
	int ri, e;
	ssize_t ret;
	resolve_all();
	if (!active || fd == logfd) {
		if (isw)
			return positional ? r_pwrite(fd, buf, len, off) : r_write(fd, buf, len);
		return positional ? r_pread(fd, buf, len, off) : r_read(fd, buf, len);
	}
	get_fdpath(fd, path, sizeof(path));
	cls = path[0] ? classify(path) : "other";
	if (!strcmp(cls, "other")) {
		if (isw)
			return positional ? r_pwrite(fd, buf, len, off) : r_write(fd, buf, len);
		return positional ? r_pread(fd, buf, len, off) : r_read(fd, buf, len);
	}
	if (!positional)
		off = lseek(fd, 0, SEEK_CUR);
	ri = match(isw ? OP_WRITE : OP_READ, 0, cls, path, off, len);
	if (pre(ri, op, cls, path)) {
		e = errno;
		log_event(op, cls, -1, e, off, len, positional, path, 0);
		errno = e;
		return -1;
	}
	if (ri >= 0 && (rules[ri].action == A_SHORT || rules[ri].action == A_KILL_MID)) {
		size_t part = rules[ri].action == A_SHORT ? (size_t)rules[ri].arg : len / 2;
		if (part > len)
			part = len;
		if (rules[ri].action == A_SHORT)
			log_inj(ri, op, cls, path);
		len = part;
	}
	if (isw && ri >= 0 && rules[ri].action == A_CORRUPT && len > 0) {
		/* silent corruption: the data reaches the file with one byte changed, the call reports success */
		unsigned char *tmp = malloc(len);
		if (tmp) {
			memcpy(tmp, buf, len);
			tmp[len / 2] ^= 0x5a;
			log_inj(ri, op, cls, path);
			ret = positional ? r_pwrite(fd, tmp, len, off) : r_write(fd, tmp, len);
			e = errno;
			free(tmp);
			log_event(op, cls, ret, ret < 0 ? e : 0, off, len, positional, path, 0);
			errno = e;
			return ret;
		}
	}
	if (isw)
		ret = positional ? r_pwrite(fd, buf, len, off) : r_write(fd, buf, len);
	else
		ret = positional ? r_pread(fd, buf, len, off) : r_read(fd, buf, len);
	e = errno;
	log_event(op, cls, ret, ret < 0 ? e : 0, off, len, positional, path, 0);
	post(ri, op, cls, path);
	errno = e;
	return ret;
}

ssize_t read(int fd, void *buf, size_t len) { return do_rw(0, 0, fd, buf, len, 0); }
ssize_t pread(int fd, void *buf, size_t len, off_t off) { return do_rw(0, 1, fd, buf, len, off); }
ssize_t pread64(int fd, void *buf, size_t len, off_t off) { return do_rw(0, 1, fd, buf, len, off); }
ssize_t write(int fd, const void *buf, size_t len) { return do_rw(1, 0, fd, (void *)buf, len, 0); }
ssize_t pwrite(int fd, const void *buf, size_t len, off_t off) { return do_rw(1, 1, fd, (void *)buf, len, off); }
ssize_t pwrite64(int fd, const void *buf, size_t len, off_t off) { return do_rw(1, 1, fd, (void *)buf, len, off); }

/* ------------------------------------------------------------------ fd ops */
#define FDOP(opc, opstr, call, offv, lenv) \
	char path[1024]; const char *cls; int ri, e, ret; \
	resolve_all(); \
	if (!active) return call; \
	get_fdpath(fd, path, sizeof(path)); \
	cls = path[0] ? classify(path) : "other"; \
	ri = match(opc, 0, cls, path, offv, lenv); \
	if (pre(ri, opstr, cls, path)) { e = errno; log_event(opstr, cls, -1, e, offv, lenv, 0, path, 0); errno = e; return -1; } \
	ret = call; e = errno; \
	if (strcmp(cls, "other") != 0) log_event(opstr, cls, ret, ret < 0 ? e : 0, offv, lenv, 0, path, 0); \
	post(ri, opstr, cls, path); \
	errno = e; return ret;

int fsync(int fd) { FDOP(OP_FSYNC, "fsync", r_fsync(fd), 0, 0) }
int fdatasync(int fd) { FDOP(OP_FSYNC, "fsync", r_fdatasync(fd), 0, 0) }
int ftruncate(int fd, off_t size) { FDOP(OP_TRUNC, "trunc", r_ftruncate(fd, size), size, 0) }
int ftruncate64(int fd, off_t size) { FDOP(OP_TRUNC, "trunc", r_ftruncate(fd, size), size, 0) }
int fallocate(int fd, int mode, off_t off, off_t len) { FDOP(OP_ALLOC, "alloc", r_fallocate(fd, mode, off, len), off, len) }
int fallocate64(int fd, int mode, off_t off, off_t len) { FDOP(OP_ALLOC, "alloc", r_fallocate(fd, mode, off, len), off, len) }
int futimens(int fd, const struct timespec tv[2]) { FDOP(OP_UTIME, "utime", r_futimens(fd, tv), tv ? tv[1].tv_sec : 0, tv ? tv[1].tv_nsec : 0) }
int futimes(int fd, const struct timeval tv[2]) { FDOP(OP_UTIME, "utime", r_futimes(fd, tv), tv ? tv[1].tv_sec : 0, tv ? tv[1].tv_usec * 1000 : 0) }

int posix_fallocate(int fd, off_t off, off_t len)
{
	/* posix_fallocate returns the error number instead of setting errno */
	char path[1024];
	const char *cls;
	int ri, ret;
	resolve_all();
	if (!active)
		return r_posix_fallocate(fd, off, len);
	get_fdpath(fd, path, sizeof(path));
	cls = path[0] ? classify(path) : "other";
	ri = match(OP_ALLOC, 0, cls, path, off, len);
	if (pre(ri, "alloc", cls, path)) {
		log_event("alloc", cls, -1, errno, off, len, 0, path, 0);
		return errno;
	}
	ret = r_posix_fallocate(fd, off, len);
	if (strcmp(cls, "other") != 0)
		log_event("alloc", cls, ret ? -1 : 0, ret, off, len, 0, path, 0);
	post(ri, "alloc", cls, path);
	return ret;
}
int posix_fallocate64(int fd, off_t off, off_t len) { return posix_fallocate(fd, off, len); }

/* ------------------------------------------------------------------ path ops */
#define PATHOP(opc, opstr, p1, p2, call) \
	const char *cls = classify(p1); int ri, e, ret; \
	resolve_all(); \
	if (!active) return call; \
	if (!strcmp(cls, "other") && p2) cls = classify(p2); \
	ri = match(opc, 0, cls, p1, 0, 0); \
	if (pre(ri, opstr, cls, p1)) { e = errno; log_event(opstr, cls, -1, e, 0, 0, 0, p1, p2); errno = e; return -1; } \
	ret = call; e = errno; \
	if (strcmp(cls, "other") != 0) log_event(opstr, cls, ret, ret < 0 ? e : 0, 0, 0, 0, p1, p2); \
	post(ri, opstr, cls, p1); \
	errno = e; return ret;

int rename(const char *a, const char *b) { PATHOP(OP_RENAME, "rename", a, b, r_rename(a, b)) }
int unlink(const char *a) { PATHOP(OP_UNLINK, "unlink", a, (const char *)0, r_unlink(a)) }
int remove(const char *a) { PATHOP(OP_UNLINK, "unlink", a, (const char *)0, r_remove(a)) }
int rmdir(const char *a) { PATHOP(OP_UNLINK, "unlink", a, (const char *)0, r_rmdir(a)) }
int mkdir(const char *a, mode_t m) { PATHOP(OP_MKDIR, "mkdir", a, (const char *)0, r_mkdir(a, m)) }
int link(const char *a, const char *b) { PATHOP(OP_LINK, "link", b, a, r_link(a, b)) }
int symlink(const char *a, const char *b) { PATHOP(OP_LINK, "link", b, a, r_symlink(a, b)) }
int lutimes(const char *a, const struct timeval tv[2]) { PATHOP(OP_UTIME, "utime", a, (const char *)0, r_lutimes(a, tv)) }
int utimes(const char *a, const struct timeval tv[2]) { PATHOP(OP_UTIME, "utime", a, (const char *)0, r_utimes(a, tv)) }

int utimensat(int dirfd, const char *a, const struct timespec tv[2], int flags)
{
	if (!a || (dirfd != AT_FDCWD && a[0] != '/')) {
		resolve_all();
		return r_utimensat(dirfd, a, tv, flags);
	}
	{
		PATHOP(OP_UTIME, "utime", a, (const char *)0, r_utimensat(dirfd, a, tv, flags))
	}
}

int creat(const char *path, mode_t mode)
{
	return do_open(0, 0, path, O_CREAT | O_WRONLY | O_TRUNC, mode);
}

/* ------------------------------------------------------------------ clock */
time_t time(time_t *t)
{
	resolve_all();
	if (have_time) {
		if (t)
			*t = (time_t)fake_time;
		return (time_t)fake_time;
	}
	return r_time(t);
}

int clock_gettime(clockid_t id, struct timespec *ts)
{
	resolve_all();
	if (have_time && id == CLOCK_REALTIME && ts) {
		ts->tv_sec = (time_t)fake_time;
		ts->tv_nsec = 0;
		return 0;
	}
	return r_clock_gettime(id, ts);
}
