/*
 * Copyright (C) 2011 Andrea Mazzoleni
 *
 * This program is free software: you can redistribute it and/or modify
 * it under the terms of the GNU General Public License as published by
 * the Free Software Foundation, either version 3 of the License, or
 * (at your option) any later version.
 *
 * This program is distributed in the hope that it will be useful,
 * but WITHOUT ANY WARRANTY; without even the implied warranty of
 * MERCHANTABILITY or FITNESS FOR A PARTICULAR PURPOSE.  See the
 * GNU General Public License for more details.
 *
 * You should have received a copy of the GNU General Public License
 * along with this program.  If not, see <http://www.gnu.org/licenses/>.
 */

/*
 * Derivative work from MurmorHash3.cpp revision r136
 *
 * SMHasher & MurmurHash
 * http://code.google.com/p/smhasher/
 *
 * Exact source used as reference:
 * http://code.google.com/p/smhasher/source/browse/trunk/MurmurHash3.cpp?spec=svn136&r=136
 */

// MurmurHash3 was written by Austin Appleby, and is placed in the public
// domain. The author hereby disclaims copyright to this source code.

/* Finalization mix - force all bits of a hash block to avalanche */
static inline uint32_t fmix32(uint32_t h)
{
	h ^= h >> 16;
	h *= 0x85ebca6b;
	h ^= h >> 13;
	h *= 0xc2b2ae35;
	h ^= h >> 16;
	return h;
}

/*
 * Warning!
 * Don't declare these variables static, otherwise the gcc optimizer
 * may generate very slow code for multiplication with these constants,
 * like:

   -> .cpp
   k1 *= c1;
   -> .asm
   152:   8d 14 80                lea    (%eax,%eax,4),%edx
   155:   8d 14 90                lea    (%eax,%edx,4),%edx
   158:   c1 e2 03                shl    $0x3,%edx
   15b:   29 c2                   sub    %eax,%edx
   15d:   8d 14 d2                lea    (%edx,%edx,8),%edx
   160:   8d 14 90                lea    (%eax,%edx,4),%edx
   163:   8d 14 d0                lea    (%eax,%edx,8),%edx
   166:   8d 14 90                lea    (%eax,%edx,4),%edx
   169:   8d 14 50                lea    (%eax,%edx,2),%edx
   16c:   8d 14 90                lea    (%eax,%edx,4),%edx
   16f:   8d 14 92                lea    (%edx,%edx,4),%edx
   172:   8d 14 50                lea    (%eax,%edx,2),%edx
   175:   8d 04 d0                lea    (%eax,%edx,8),%eax
   178:   8d 14 c5 00 00 00 00    lea    0x0(,%eax,8),%edx
   17f:   29 d0                   sub    %edx,%eax

 * resulting in speeds of 500 MB/s instead of 3000 MB/s.
 *
 * Verified with gcc 4.4.4 compiling with :
 *
 * g++ -g -c -O2 MurmurHash3.cpp -o MurmurHash3.o
 */
uint32_t c1 = 0x239b961b;
uint32_t c2 = 0xab0e9789;
uint32_t c3 = 0x38b34ae5;
uint32_t c4 = 0xa1e38b93;

void MurmurHash3_x86_128(const void* data, size_t size, const uint8_t* seed, void* digest)
{
	size_t nblocks;
	const uint32_t* blocks;
	const uint32_t* end;
	size_t size_remainder;
	uint32_t h1, h2, h3, h4;

	h1 = util_read32(seed + 0);
	h2 = util_read32(seed + 4);
	h3 = util_read32(seed + 8);
	h4 = util_read32(seed + 12);

	nblocks = size / 16;
	blocks = data;
	end = blocks + nblocks * 4;

	/* body */
	while (blocks < end) {
		uint32_t k1 = blocks[0];
		uint32_t k2 = blocks[1];
		uint32_t k3 = blocks[2];
		uint32_t k4 = blocks[3];

#if WORDS_BIGENDIAN
		k1 = util_swap32(k1);
		k2 = util_swap32(k2);
		k3 = util_swap32(k3);
		k4 = util_swap32(k4);
#endif

		k1 *= c1; k1 = util_rotl32(k1, 15); k1 *= c2; h1 ^= k1;

		h1 = util_rotl32(h1, 19); h1 += h2; h1 = h1 * 5 + 0x561ccd1b;

		k2 *= c2; k2 = util_rotl32(k2, 16); k2 *= c3; h2 ^= k2;

		h2 = util_rotl32(h2, 17); h2 += h3; h2 = h2 * 5 + 0x0bcaa747;

		k3 *= c3; k3 = util_rotl32(k3, 17); k3 *= c4; h3 ^= k3;

		h3 = util_rotl32(h3, 15); h3 += h4; h3 = h3 * 5 + 0x96cd1c35;

		k4 *= c4; k4 = util_rotl32(k4, 18); k4 *= c1; h4 ^= k4;

		h4 = util_rotl32(h4, 13); h4 += h1; h4 = h4 * 5 + 0x32ac3b17;

		blocks += 4;
	}

	/* tail */
	size_remainder = size & 15;
	if (size_remainder != 0) {
		const uint8_t* tail = (const uint8_t*)blocks;

		uint32_t k1 = 0;
		uint32_t k2 = 0;
		uint32_t k3 = 0;
		uint32_t k4 = 0;

		switch (size_remainder) {
		case 15 : k4 ^= (uint32_t)tail[14] << 16; /* fallthrough */
		case 14 : k4 ^= (uint32_t)tail[13] << 8; /* fallthrough */
		case 13 : k4 ^= (uint32_t)tail[12] << 0; /* fallthrough */
			k4 *= c4; k4 = util_rotl32(k4, 18); k4 *= c1; h4 ^= k4;
			/* fallthrough */
		case 12 : k3 ^= (uint32_t)tail[11] << 24; /* fallthrough */
		case 11 : k3 ^= (uint32_t)tail[10] << 16; /* fallthrough */
		case 10 : k3 ^= (uint32_t)tail[ 9] << 8; /* fallthrough */
		case 9 : k3 ^= (uint32_t)tail[ 8] << 0; /* fallthrough */
			k3 *= c3; k3 = util_rotl32(k3, 17); k3 *= c4; h3 ^= k3;
			/* fallthrough */
		case 8 : k2 ^= (uint32_t)tail[ 7] << 24; /* fallthrough */
		case 7 : k2 ^= (uint32_t)tail[ 6] << 16; /* fallthrough */
		case 6 : k2 ^= (uint32_t)tail[ 5] << 8; /* fallthrough */
		case 5 : k2 ^= (uint32_t)tail[ 4] << 0; /* fallthrough */
			k2 *= c2; k2 = util_rotl32(k2, 16); k2 *= c3; h2 ^= k2;
			/* fallthrough */
		case 4 : k1 ^= (uint32_t)tail[ 3] << 24; /* fallthrough */
		case 3 : k1 ^= (uint32_t)tail[ 2] << 16; /* fallthrough */
		case 2 : k1 ^= (uint32_t)tail[ 1] << 8; /* fallthrough */
		case 1 : k1 ^= (uint32_t)tail[ 0] << 0; /* fallthrough */
			k1 *= c1; k1 = util_rotl32(k1, 15); k1 *= c2; h1 ^= k1;
			/* fallthrough */
		}
	}

	/* finalization */
	h1 ^= size; h2 ^= size; h3 ^= size; h4 ^= size;

	h1 += h2; h1 += h3; h1 += h4;
	h2 += h1; h3 += h1; h4 += h1;

	h1 = fmix32(h1);
	h2 = fmix32(h2);
	h3 = fmix32(h3);
	h4 = fmix32(h4);

	h1 += h2; h1 += h3; h1 += h4;
	h2 += h1; h3 += h1; h4 += h1;

	util_write32(digest + 0, h1);
	util_write32(digest + 4, h2);
	util_write32(digest + 8, h3);
	util_write32(digest + 12, h4);
}

