/* Reference hash helper: murmur3/spooky2/metro sources FROZEN from the pinned commit
 * (e695936) of amadvance/snapraid.  Built as a shared object and used through ctypes.
 * It never includes anything from /repo. */
#include <stdint.h>
#include <string.h>
#include <stddef.h>

static inline uint32_t util_rotl32(uint32_t x, int8_t r) { return (x << r) | (x >> (32 - r)); }
static inline uint64_t util_rotl64(uint64_t x, int8_t r) { return (x << r) | (x >> (64 - r)); }
static inline uint64_t util_rotr64(uint64_t x, int8_t r) { return (x >> r) | (x << (64 - r)); }
static inline uint8_t util_read8(const void* p) { return *(const uint8_t*)p; }
static inline uint16_t util_read16(const void* p) { const uint8_t* q = p; return q[0] + (q[1] << 8); }
static inline uint32_t util_read32(const void* p) { uint32_t v; memcpy(&v, p, 4); return v; }
static inline uint64_t util_read64(const void* p) { uint64_t v; memcpy(&v, p, 8); return v; }
static inline void util_write32(void* p, uint32_t v) { memcpy(p, &v, 4); }
static inline void util_write64(void* p, uint64_t v) { memcpy(p, &v, 8); }
#define tommy_likely(x) (x)
#define tommy_unlikely(x) (x)

#include "frozen_murmur3.c"
#include "frozen_spooky2.c"
#include "frozen_metro.c"

/* kind: 1 murmur3, 2 spooky2, 3 metro */
int refhash(int kind, const unsigned char* seed, const unsigned char* data, size_t len, unsigned char* out)
{
	switch (kind) {
	case 1: MurmurHash3_x86_128(data, len, seed, out); return 0;
	case 2: SpookyHash128(data, len, seed, out); return 0;
	case 3: MetroHash128(data, len, seed, out); return 0;
	}
	return -1;
}

/* bitwise CRC-32C, reflected 0x82F63B78, init/final xor 0xffffffff */
uint32_t refcrc32c(uint32_t crc, const unsigned char* p, size_t n)
{
	crc ^= 0xffffffffU;
	while (n--) {
		int k;
		crc ^= *p++;
		for (k = 0; k < 8; ++k)
			crc = (crc >> 1) ^ (0x82F63B78U & (0U - (crc & 1)));
	}
	return crc ^ 0xffffffffU;
}
