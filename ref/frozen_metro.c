/*
 * Copyright (C) 2019 Andrea Mazzoleni
 *
 * This program is free software: you can redistribute it and/or modify
 * it under the terms of the GNU General Public License as published by
 * the Free Software Foundation, either version 3 of the License, or
 * (at your option) any later version.
 *
 * This program is distributed in the hope that it will be useful,
 * but WITHOUT ANY WARRANTY; without even the implied warranty of
 * MERCHANTABILITY or FITNESS FOR A PARTICULAR PURPOSE.  See the
 * GNU General Public License for more details.
 *
 * You should have received a copy of the GNU General Public License
 * along with this program.  If not, see <http://www.gnu.org/licenses/>.
 */

/*
 * Derivative work from metrohash128.cpp
 *
 * metrohash128.cpp
 *
 * Copyright 2015-2018 J. Andrew Rogers
 *
 * Licensed under the Apache License, Version 2.0 (the "License");
 * you may not use this file except in compliance with the License.
 * You may obtain a copy of the License at
 *
 *     http://www.apache.org/licenses/LICENSE-2.0
 *
 * Unless required by applicable law or agreed to in writing, software
 * distributed under the License is distributed on an "AS IS" BASIS,
 * WITHOUT WARRANTIES OR CONDITIONS OF ANY KIND, either express or implied.
 * See the License for the specific language governing permissions and
 * limitations under the License.
 */

static const uint64_t k0 = 0xC83A91E1;
static const uint64_t k1 = 0x8648DBDB;
static const uint64_t k2 = 0x7BDEC03B;
static const uint64_t k3 = 0x2F5870A5;

void MetroHash128(const void* data, size_t size, const uint8_t* seed, uint8_t* digest)
{
	const uint8_t* ptr = data;
	uint64_t v[4];

	v[0] = (util_read64(seed) - k0) * k3;
	v[1] = (util_read64(seed + 8) + k1) * k2;

	if (size >= 32) {
		v[2] = (util_read64(seed) + k0) * k2;
		v[3] = (util_read64(seed + 8) - k1) * k3;

		do {
			v[0] += util_read64(ptr) * k0; ptr += 8; v[0] = util_rotr64(v[0], 29) + v[2];
			v[1] += util_read64(ptr) * k1; ptr += 8; v[1] = util_rotr64(v[1], 29) + v[3];
			v[2] += util_read64(ptr) * k2; ptr += 8; v[2] = util_rotr64(v[2], 29) + v[0];
			v[3] += util_read64(ptr) * k3; ptr += 8; v[3] = util_rotr64(v[3], 29) + v[1];
			size -= 32;
		} while (size >= 32);

		v[2] ^= util_rotr64(((v[0] + v[3]) * k0) + v[1], 21) * k1;
		v[3] ^= util_rotr64(((v[1] + v[2]) * k1) + v[0], 21) * k0;
		v[0] ^= util_rotr64(((v[0] + v[2]) * k0) + v[3], 21) * k1;
		v[1] ^= util_rotr64(((v[1] + v[3]) * k1) + v[2], 21) * k0;
	}

	if (size >= 16) {
		v[0] += util_read64(ptr) * k2; ptr += 8; v[0] = util_rotr64(v[0], 33) * k3;
		v[1] += util_read64(ptr) * k2; ptr += 8; v[1] = util_rotr64(v[1], 33) * k3;
		v[0] ^= util_rotr64((v[0] * k2) + v[1], 45) * k1;
		v[1] ^= util_rotr64((v[1] * k3) + v[0], 45) * k0;
		size -= 16;
	}

	if (size >= 8) {
		v[0] += util_read64(ptr) * k2; ptr += 8; v[0] = util_rotr64(v[0], 33) * k3;
		v[0] ^= util_rotr64((v[0] * k2) + v[1], 27) * k1;
		size -= 8;
	}

	if (size >= 4) {
		v[1] += util_read32(ptr) * k2; ptr += 4; v[1] = util_rotr64(v[1], 33) * k3;
		v[1] ^= util_rotr64((v[1] * k3) + v[0], 46) * k0;
		size -= 4;
	}

	if (size >= 2) {
		v[0] += util_read16(ptr) * k2; ptr += 2; v[0] = util_rotr64(v[0], 33) * k3;
		v[0] ^= util_rotr64((v[0] * k2) + v[1], 22) * k1;
		size -= 2;
	}

	if (size >= 1) {
		v[1] += util_read8(ptr) * k2; v[1] = util_rotr64(v[1], 33) * k3;
		v[1] ^= util_rotr64((v[1] * k3) + v[0], 58) * k0;
	}

	v[0] += util_rotr64((v[0] * k0) + v[1], 13);
	v[1] += util_rotr64((v[1] * k1) + v[0], 37);
	v[0] += util_rotr64((v[0] * k2) + v[1], 13);
	v[1] += util_rotr64((v[1] * k3) + v[0], 37);

	util_write64(digest, v[0]);
	util_write64(digest + 8, v[0]);
}

