/*
 * Copyright (C) 2013 Andrea Mazzoleni
 *
 * This program is free software: you can redistribute it and/or modify
 * it under the terms of the GNU General Public License as published by
 * the Free Software Foundation, either version 3 of the License, or
 * (at your option) any later version.
 *
 * This program is distributed in the hope that it will be useful,
 * but WITHOUT ANY WARRANTY; without even the implied warranty of
 * MERCHANTABILITY or FITNESS FOR A PARTICULAR PURPOSE.  See the
 * GNU General Public License for more details.
 *
 * You should have received a copy of the GNU General Public License
 * along with this program.  If not, see <http://www.gnu.org/licenses/>.
 */

/*
 * Derivative work from SpookyV2.cpp/h
 *
 * WARNING!!!! Note that this implementation doesn't use the short hash optimization
 * resulting in different hashes for any length shorter than 192 bytes
 *
 * SpookyHash
 * http://burtleburtle.net/bob/hash/spooky.html
 *
 * Exact source used as reference:
 * http://burtleburtle.net/bob/c/SpookyV2.h
 * http://burtleburtle.net/bob/c/SpookyV2.cpp
 */

// Spooky Hash
// A 128-bit noncryptographic hash, for checksums and table lookup
// By Bob Jenkins.  Public domain.
//   Oct 31 2010: published framework, disclaimer ShortHash isn't right
//   Nov 7 2010: disabled ShortHash
//   Oct 31 2011: replace End, ShortMix, ShortEnd, enable ShortHash again
//   April 10 2012: buffer overflow on platforms without unaligned reads
//   July 12 2012: was passing out variables in final to in/out in short
//   July 30 2012: I reintroduced the buffer overflow
//   August 5 2012: SpookyV2: d = should be d += in short hash, and remove extra mix from long hash
//
// Up to 3 bytes/cycle for long messages.  Reasonably fast for short messages.
// All 1 or 2 bit deltas achieve avalanche within 1% bias per output bit.
//
// This was developed for and tested on 64-bit x86-compatible processors.
// It assumes the processor is little-endian.  There is a macro
// controlling whether unaligned reads are allowed (by default they are).
// This should be an equally good hash on big-endian machines, but it will
// compute different results on them than on little-endian machines.
//
// Google's CityHash has similar specs to SpookyHash, and CityHash is faster
// on new Intel boxes.  MD4 and MD5 also have similar specs, but they are orders
// of magnitude slower.  CRCs are two or more times slower, but unlike
// SpookyHash, they have nice math for combining the CRCs of pieces to form
// the CRCs of wholes.  There are also cryptographic hashes, but those are even
// slower than MD5.
//

#define Mix(data, s0, s1, s2, s3, s4, s5, s6, s7, s8, s9, s10, s11) \
	s0 += data[0];   s2 ^= s10;  s11 ^= s0;   s0 = util_rotl64(s0, 11);   s11 += s1; \
	s1 += data[1];   s3 ^= s11;  s0 ^= s1;   s1 = util_rotl64(s1, 32);   s0 += s2; \
	s2 += data[2];   s4 ^= s0;   s1 ^= s2;   s2 = util_rotl64(s2, 43);   s1 += s3; \
	s3 += data[3];   s5 ^= s1;   s2 ^= s3;   s3 = util_rotl64(s3, 31);   s2 += s4; \
	s4 += data[4];   s6 ^= s2;   s3 ^= s4;   s4 = util_rotl64(s4, 17);   s3 += s5; \
	s5 += data[5];   s7 ^= s3;   s4 ^= s5;   s5 = util_rotl64(s5, 28);   s4 += s6; \
	s6 += data[6];   s8 ^= s4;   s5 ^= s6;   s6 = util_rotl64(s6, 39);   s5 += s7; \
	s7 += data[7];   s9 ^= s5;   s6 ^= s7;   s7 = util_rotl64(s7, 57);   s6 += s8; \
	s8 += data[8];   s10 ^= s6;   s7 ^= s8;   s8 = util_rotl64(s8, 55);   s7 += s9; \
	s9 += data[9];   s11 ^= s7;   s8 ^= s9;   s9 = util_rotl64(s9, 54);   s8 += s10; \
	s10 += data[10];  s0 ^= s8;   s9 ^= s10;  s10 = util_rotl64(s10, 22);  s9 += s11; \
	s11 += data[11];  s1 ^= s9;   s10 ^= s11;  s11 = util_rotl64(s11, 46);  s10 += s0;

#define EndPartial(h0, h1, h2, h3, h4, h5, h6, h7, h8, h9, h10, h11) \
	h11 += h1;   h2 ^= h11;  h1 = util_rotl64(h1, 44); \
	h0 += h2;   h3 ^= h0;   h2 = util_rotl64(h2, 15); \
	h1 += h3;   h4 ^= h1;   h3 = util_rotl64(h3, 34); \
	h2 += h4;   h5 ^= h2;   h4 = util_rotl64(h4, 21); \
	h3 += h5;   h6 ^= h3;   h5 = util_rotl64(h5, 38); \
	h4 += h6;   h7 ^= h4;   h6 = util_rotl64(h6, 33); \
	h5 += h7;   h8 ^= h5;   h7 = util_rotl64(h7, 10); \
	h6 += h8;   h9 ^= h6;   h8 = util_rotl64(h8, 13); \
	h7 += h9;   h10 ^= h7;   h9 = util_rotl64(h9, 38); \
	h8 += h10;  h11 ^= h8;   h10 = util_rotl64(h10, 53); \
	h9 += h11;  h0 ^= h9;   h11 = util_rotl64(h11, 42); \
	h10 += h0;   h1 ^= h10;  h0 = util_rotl64(h0, 54);

#define End(data, h0, h1, h2, h3, h4, h5, h6, h7, h8, h9, h10, h11) \
	h0 += data[0];  h1 += data[1];  h2 += data[2];    h3 += data[3]; \
	h4 += data[4];  h5 += data[5];  h6 += data[6];    h7 += data[7]; \
	h8 += data[8];  h9 += data[9];  h10 += data[10];   h11 += data[11]; \
	EndPartial(h0, h1, h2, h3, h4, h5, h6, h7, h8, h9, h10, h11); \
	EndPartial(h0, h1, h2, h3, h4, h5, h6, h7, h8, h9, h10, h11); \
	EndPartial(h0, h1, h2, h3, h4, h5, h6, h7, h8, h9, h10, h11);

// number of uint64_t's in internal state
#define sc_numVars 12

// size of the internal state
#define sc_blockSize (sc_numVars * 8)

//
// sc_const: a constant which:
//  * is not zero
//  * is odd
//  * is a not-very-regular mix of 1's and 0's
//  * does not need any other special mathematical properties
//
#define sc_const 0xdeadbeefdeadbeefLL

void SpookyHash128(const void* data, size_t size, const uint8_t* seed, uint8_t* digest)
{
	uint64_t h0, h1, h2, h3, h4, h5, h6, h7, h8, h9, h10, h11;
	uint64_t buf[sc_numVars];
	size_t nblocks;
	const uint64_t* blocks;
	const uint64_t* end;
	size_t size_remainder;
#if WORDS_BIGENDIAN
	unsigned i;
#endif

	h9 = util_read64(seed + 0);
	h10 = util_read64(seed + 8);

	h0 = h3 = h6 = h9;
	h1 = h4 = h7 = h10;
	h2 = h5 = h8 = h11 = sc_const;

	nblocks = size / sc_blockSize;
	blocks = data;
	end = blocks + nblocks * sc_numVars;

	/* body */
	while (blocks < end) {
#if WORDS_BIGENDIAN
		for (i = 0; i < sc_numVars; ++i)
			buf[i] = util_swap64(blocks[i]);
		Mix(buf, h0, h1, h2, h3, h4, h5, h6, h7, h8, h9, h10, h11);
#else
		Mix(blocks, h0, h1, h2, h3, h4, h5, h6, h7, h8, h9, h10, h11);
#endif
		blocks += sc_numVars;
	}

	/* tail */
	size_remainder = (size - ((const uint8_t*)end - (const uint8_t*)data));
	memcpy(buf, end, size_remainder);
	memset(((uint8_t*)buf) + size_remainder, 0, sc_blockSize - size_remainder);
	((uint8_t*)buf)[sc_blockSize - 1] = size_remainder;

	/* finalization */
#if WORDS_BIGENDIAN
	for (i = 0; i < sc_numVars; ++i)
		buf[i] = util_swap64(buf[i]);
#endif
	End(buf, h0, h1, h2, h3, h4, h5, h6, h7, h8, h9, h10, h11);

	util_write64(digest + 0, h0);
	util_write64(digest + 8, h1);
}

