/*
 * raidmon - runtime monitor for the RAID kernels of /repo/raid (properties C02, C03, C16).
 *
 * Linked against the objects of the *current tree*.  Everything it compares against
 * is computed here from the definition of GF(2^8)/0x11d and of the generator matrices;
 * nothing is taken from raid/tables.c.  Buffers live between PROT_NONE guard pages with
 * canary slack, so a stray access made by inline assembly faults deterministically.
 *
 * Output: lines "VIOL <key> | <detail>", "STAT <name> <value>", "SAMPLE <text>".
 * Exit status: 0 ran to completion (violations are in the output), 3 guard fault / abort.
 */
#define _GNU_SOURCE
#include <stdint.h>
#include <stdio.h>
#include <stdlib.h>
#include <string.h>
#include <signal.h>
#include <unistd.h>
#include <sys/mman.h>

#include "raid/raid.h"

/* declarations taken from the exported interface (raid/internal.h), repeated here so
 * that the harness does not depend on internal macros */
void raid_gen_ref(int nd, int np, size_t size, void **vv);
extern const uint8_t raid_gfmul[256][256];
extern const uint8_t raid_gfexp[256];
extern const uint8_t raid_gfinv[256];
extern const uint8_t raid_gfvandermonde[3][256];
extern const uint8_t raid_gfcauchy[6][256];
#ifdef HAVE_PSHUFB_TABLES
extern const uint8_t raid_gfcauchypshufb[251][4][2][16];
extern const uint8_t raid_gfmulpshufb[256][2][16];
#endif

typedef void gen_f(int nd, size_t size, void **vv);
typedef void rec_f(int nr, int *id, int *ip, int nd, size_t size, void **vv);

struct kernel {
	const char *name;
	int is_rec;   /* 0 gen, 1 rec */
	int level;    /* gen: np (3 for z); rec: 1, 2, or 0 for X */
	int zmode;    /* genz */
	const char *feat; /* "", sse2, ssse3, avx2 */
	void *fn;
};

#include "kernels.inc"

/* ------------------------------------------------------------------ reference field */
static uint8_t MUL[256][256];
static uint8_t INV[256];
static uint8_t CAU[6][251];
static uint8_t POW[3][251];

static uint8_t mul_def(uint8_t a, uint8_t b)
{
	unsigned r = 0, aa = a;
	while (b) {
		if (b & 1)
			r ^= aa;
		aa <<= 1;
		if (aa & 0x100)
			aa ^= 0x11d;
		b >>= 1;
	}
	return (uint8_t)r;
}

static void ref_init(void)
{
	int a, b, i, j;
	for (a = 0; a < 256; ++a)
		for (b = 0; b < 256; ++b)
			MUL[a][b] = mul_def(a, b);
	for (a = 1; a < 256; ++a)
		for (b = 1; b < 256; ++b)
			if (MUL[a][b] == 1)
				INV[a] = b;
	uint8_t p2[251];
	uint8_t v = 1, w = 1;
	for (i = 0; i < 251; ++i) {
		p2[i] = v;
		CAU[0][i] = 1;
		CAU[1][i] = v;
		POW[0][i] = 1;
		POW[1][i] = v;
		POW[2][i] = w;
		v = MUL[v][2];
		w = MUL[w][INV[2]];
	}
	for (j = 2; j < 6; ++j) {
		uint8_t y = 1;
		for (i = 0; i < j - 1; ++i)
			y = MUL[y][2];
		for (i = 0; i < 251; ++i)
			CAU[j][i] = INV[y ^ INV[p2[i]]];
		uint8_t f = INV[CAU[j][0]];
		for (i = 0; i < 251; ++i)
			CAU[j][i] = MUL[CAU[j][i]][f];
	}
}

static uint8_t coef(int zmode, int j, int i)
{
	return zmode ? POW[j][i] : CAU[j][i];
}

/* ------------------------------------------------------------------ rng */
static uint64_t rng_s[2];
static uint64_t rnd(void)
{
	uint64_t s1 = rng_s[0], s0 = rng_s[1];
	rng_s[0] = s0;
	s1 ^= s1 << 23;
	rng_s[1] = s1 ^ s0 ^ (s1 >> 18) ^ (s0 >> 5);
	return rng_s[1] + s0;
}
static void rseed(uint64_t s)
{
	rng_s[0] = s * 0x9E3779B97F4A7C15ULL + 1;
	rng_s[1] = (s ^ 0xD1B54A32D192ED03ULL) * 0xBF58476D1CE4E5B9ULL + 7;
	int i;
	for (i = 0; i < 8; ++i)
		rnd();
}
static void rfill(uint8_t *p, size_t n)
{
	size_t i;
	for (i = 0; i + 8 <= n; i += 8) {
		uint64_t v = rnd();
		memcpy(p + i, &v, 8);
	}
	for (; i < n; ++i)
		p[i] = (uint8_t)rnd();
}

/* ------------------------------------------------------------------ guarded buffers */
#define PAGE 4096
#define CANARY 0xA5
struct gbuf {
	uint8_t *map;
	size_t maplen;
	uint8_t *ptr;
	size_t size;
	int front; /* 1: block starts right after a guard page; 0: ends right before one */
};

static struct gbuf galloc(size_t size, int front)
{
	struct gbuf g;
	size_t body = (size + PAGE - 1) / PAGE * PAGE;
	if (body == 0)
		body = PAGE;
	g.maplen = body + 2 * PAGE;
	g.map = mmap(0, g.maplen, PROT_READ | PROT_WRITE, MAP_PRIVATE | MAP_ANONYMOUS, -1, 0);
	if (g.map == MAP_FAILED) {
		perror("mmap");
		exit(2);
	}
	memset(g.map + PAGE, CANARY, body);
	mprotect(g.map, PAGE, PROT_NONE);
	mprotect(g.map + PAGE + body, PAGE, PROT_NONE);
	g.size = size;
	g.front = front;
	g.ptr = front ? g.map + PAGE : g.map + PAGE + body - size;
	return g;
}
static void gfree(struct gbuf *g)
{
	munmap(g->map, g->maplen);
}
static int gcanary_ok(const struct gbuf *g)
{
	size_t body = g->maplen - 2 * PAGE;
	const uint8_t *lo = g->map + PAGE;
	const uint8_t *p;
	for (p = lo; p < g->ptr; ++p)
		if (*p != CANARY)
			return 0;
	for (p = g->ptr + g->size; p < lo + body; ++p)
		if (*p != CANARY)
			return 0;
	return 1;
}

static const char *cur_kernel = "-";
static int cur_nd, cur_np;
static size_t cur_size;
static void on_fault(int sig, siginfo_t *si, void *ctx)
{
	char buf[300];
	int n = snprintf(buf, sizeof(buf), "VIOL guard-fault:%s | signal %d addr %p nd=%d np=%d size=%zu\n",
		cur_kernel, sig, si ? si->si_addr : 0, cur_nd, cur_np, cur_size);
	(void)ctx;
	if (write(1, buf, n) < 0) {
	}
	_exit(3);
}

static long n_viol;
static long n_calls;
static long n_cases;
#define VIOL(key, ...) do { ++n_viol; if (n_viol < 200) { printf("VIOL %s | ", key); printf(__VA_ARGS__); printf("\n"); fflush(stdout); } } while (0)

static int has_feat(const char *f)
{
	if (!*f)
		return 1;
#if defined(__x86_64__) || defined(__i386__)
	if (!strcmp(f, "sse2"))
		return __builtin_cpu_supports("sse2");
	if (!strcmp(f, "ssse3"))
		return __builtin_cpu_supports("ssse3");
	if (!strcmp(f, "avx2"))
		return __builtin_cpu_supports("avx2");
#endif
	return 0;
}

/* ------------------------------------------------------------------ stripes */
#define MAXB (251 + 6)
struct stripe {
	int nd, np;
	size_t size;
	struct gbuf g[MAXB];
	struct gbuf vec; /* guarded pointer vector of exact length */
	void **v;
	uint8_t *orig[MAXB]; /* plain malloc copies of the reference content */
};

static void stripe_alloc(struct stripe *s, int nd, int np, size_t size, int front)
{
	int i;
	s->nd = nd;
	s->np = np;
	s->size = size;
	for (i = 0; i < nd + np; ++i) {
		s->g[i] = galloc(size, front);
		s->orig[i] = malloc(size ? size : 1);
	}
	s->vec = galloc((nd + np) * sizeof(void *), 0);
	s->v = (void **)s->vec.ptr;
	for (i = 0; i < nd + np; ++i)
		s->v[i] = s->g[i].ptr;
}
static void stripe_free(struct stripe *s)
{
	int i;
	for (i = 0; i < s->nd + s->np; ++i) {
		gfree(&s->g[i]);
		free(s->orig[i]);
	}
	gfree(&s->vec);
}
static void stripe_reset_v(struct stripe *s)
{
	int i;
	for (i = 0; i < s->nd + s->np; ++i)
		s->v[i] = s->g[i].ptr;
}
/* reference parity of orig data into orig parity */
static void stripe_refparity(struct stripe *s, int zmode)
{
	int i, j;
	size_t b;
	for (j = 0; j < s->np; ++j)
		memset(s->orig[s->nd + j], 0, s->size);
	for (i = 0; i < s->nd; ++i) {
		const uint8_t *d = s->orig[i];
		int allzero = 1;
		for (b = 0; b < s->size; ++b)
			if (d[b]) {
				allzero = 0;
				break;
			}
		if (allzero)
			continue;
		for (j = 0; j < s->np; ++j) {
			const uint8_t *t = MUL[coef(zmode, j, i)];
			uint8_t *p = s->orig[s->nd + j];
			for (b = 0; b < s->size; ++b)
				p[b] ^= t[d[b]];
		}
	}
}
static void stripe_load(struct stripe *s)
{
	int i;
	for (i = 0; i < s->nd + s->np; ++i)
		memcpy(s->g[i].ptr, s->orig[i], s->size);
}
static int stripe_canaries(struct stripe *s)
{
	int i;
	for (i = 0; i < s->nd + s->np; ++i)
		if (!gcanary_ok(&s->g[i]))
			return i;
	if (!gcanary_ok(&s->vec))
		return s->nd + s->np;
	for (i = 0; i < s->nd + s->np; ++i)
		if (s->v[i] != (void *)s->g[i].ptr)
			return s->nd + s->np + 1 + i;
	return -1;
}

/* ------------------------------------------------------------------ C02: tables */
static int do_tables(void)
{
	int a, b, i, j, k;
	long checked = 0;
	for (a = 0; a < 256; ++a)
		for (b = 0; b < 256; ++b) {
			++checked;
			if (raid_gfmul[a][b] != MUL[a][b])
				VIOL("table:gfmul", "gfmul[%d][%d]=%d expected %d", a, b, raid_gfmul[a][b], MUL[a][b]);
		}
	uint8_t v = 1;
	for (i = 0; i < 256; ++i) {
		++checked;
		if (raid_gfexp[i] != v)
			VIOL("table:gfexp", "gfexp[%d]=%d expected %d", i, raid_gfexp[i], v);
		v = MUL[v][2];
	}
	for (i = 1; i < 256; ++i) {
		++checked;
		if (raid_gfinv[i] != INV[i])
			VIOL("table:gfinv", "gfinv[%d]=%d expected %d", i, raid_gfinv[i], INV[i]);
	}
	for (j = 0; j < 6; ++j)
		for (i = 0; i < 251; ++i) {
			++checked;
			if (raid_gfcauchy[j][i] != CAU[j][i])
				VIOL("table:gfcauchy", "gfcauchy[%d][%d]=%d expected %d", j, i, raid_gfcauchy[j][i], CAU[j][i]);
		}
	for (j = 0; j < 3; ++j)
		for (i = 0; i < 251; ++i) {
			++checked;
			if (raid_gfvandermonde[j][i] != POW[j][i])
				VIOL("table:gfvandermonde", "gfvandermonde[%d][%d]=%d expected %d", j, i, raid_gfvandermonde[j][i], POW[j][i]);
		}
#ifdef HAVE_PSHUFB_TABLES
	for (i = 0; i < 251; ++i)
		for (j = 0; j < 4; ++j)
			for (k = 0; k < 16; ++k) {
				uint8_t c = CAU[j + 2][i];
				checked += 2;
				if (raid_gfcauchypshufb[i][j][0][k] != MUL[c][k])
					VIOL("table:gfcauchypshufb", "[%d][%d][0][%d]=%d expected %d", i, j, k, raid_gfcauchypshufb[i][j][0][k], MUL[c][k]);
				if (raid_gfcauchypshufb[i][j][1][k] != MUL[c][k << 4])
					VIOL("table:gfcauchypshufb", "[%d][%d][1][%d]=%d expected %d", i, j, k, raid_gfcauchypshufb[i][j][1][k], MUL[c][k << 4]);
			}
	for (a = 0; a < 256; ++a)
		for (k = 0; k < 16; ++k) {
			checked += 2;
			if (raid_gfmulpshufb[a][0][k] != MUL[a][k])
				VIOL("table:gfmulpshufb", "[%d][0][%d]=%d expected %d", a, k, raid_gfmulpshufb[a][0][k], MUL[a][k]);
			if (raid_gfmulpshufb[a][1][k] != MUL[a][k << 4])
				VIOL("table:gfmulpshufb", "[%d][1][%d]=%d expected %d", a, k, raid_gfmulpshufb[a][1][k], MUL[a][k << 4]);
		}
	printf("STAT pshufb_tables 1\n");
#else
	printf("STAT pshufb_tables 0\n");
#endif
	printf("STAT table_entries %ld\n", checked);
	return 0;
}

/* ------------------------------------------------------------------ C02: gen kernels */
/* fill data of the stripe: kind 0 random dense, 1 byte basis on disk `which`, 2 sparse */
static void fill_data(struct stripe *s, int kind, int which, int rot)
{
	int i;
	size_t b;
	for (i = 0; i < s->nd; ++i) {
		if (kind == 0) {
			rfill(s->orig[i], s->size);
		} else if (kind == 1) {
			memset(s->orig[i], 0, s->size);
			if (i == which)
				for (b = 0; b < s->size; ++b) /* every (lane 0..63, value) pair when size >= 16384 */
					s->orig[i][b] = (uint8_t)((b / 64) + rot);
		} else {
			memset(s->orig[i], 0, s->size);
			if ((rnd() & 3) == 0)
				rfill(s->orig[i], s->size);
		}
	}
}

static void check_gen_result(struct stripe *s, const char *kname, int zmode, const char *what)
{
	int i;
	char key[128];
	for (i = 0; i < s->nd; ++i)
		if (memcmp(s->g[i].ptr, s->orig[i], s->size) != 0) {
			snprintf(key, sizeof(key), "gen-data-modified:%s", kname);
			VIOL(key, "%s nd=%d np=%d size=%zu data block %d changed", what, s->nd, s->np, s->size, i);
			return;
		}
	for (i = 0; i < s->np; ++i) {
		const uint8_t *got = s->g[s->nd + i].ptr;
		const uint8_t *exp = s->orig[s->nd + i];
		if (memcmp(got, exp, s->size) != 0) {
			size_t b = 0;
			while (got[b] == exp[b])
				++b;
			snprintf(key, sizeof(key), "gen-parity-wrong:%s", kname);
			VIOL(key, "%s nd=%d np=%d size=%zu zmode=%d parity %d byte %zu got %02x expected %02x", what, s->nd, s->np, s->size, zmode, i, b, got[b], exp[b]);
			return;
		}
	}
	i = stripe_canaries(s);
	if (i >= 0) {
		snprintf(key, sizeof(key), "gen-stray-write:%s", kname);
		VIOL(key, "%s nd=%d np=%d size=%zu canary/vector slot %d damaged", what, s->nd, s->np, s->size, i);
	}
}

static void run_gen_kernel(const struct kernel *k, struct stripe *s, const char *what)
{
	int j;
	stripe_refparity(s, k->zmode);
	stripe_load(s);
	/* poison parity outputs so that "not written" is visible */
	for (j = 0; j < s->np; ++j)
		memset(s->g[s->nd + j].ptr, 0x5A, s->size);
	cur_kernel = k->name;
	cur_nd = s->nd;
	cur_np = s->np;
	cur_size = s->size;
	raid_mode(k->zmode ? RAID_MODE_VANDERMONDE : RAID_MODE_CAUCHY);
	((gen_f *)k->fn)(s->nd, s->size, s->v);
	++n_calls;
	check_gen_result(s, k->name, k->zmode, what);
}

static void run_gen_dispatch(struct stripe *s, int zmode, const char *what)
{
	int j;
	stripe_refparity(s, zmode);
	stripe_load(s);
	for (j = 0; j < s->np; ++j)
		memset(s->g[s->nd + j].ptr, 0x5A, s->size);
	cur_kernel = zmode ? "raid_gen(z)" : "raid_gen";
	cur_nd = s->nd;
	cur_np = s->np;
	cur_size = s->size;
	raid_mode(zmode ? RAID_MODE_VANDERMONDE : RAID_MODE_CAUCHY);
	raid_gen(s->nd, s->np, s->size, s->v);
	++n_calls;
	check_gen_result(s, cur_kernel, zmode, what);
}

static int do_gen(int thorough, const char *only)
{
	int ki, nd, front;
	int nds_sizes[] = { 1, 2, 7, 32, 251 };
	size_t sizes[] = { 64, 128, 192, 256, 320, 512, 1024, 4096, 4160 };
	long variants = 0;
	for (ki = 0; ki < (int)(sizeof(kernels) / sizeof(kernels[0])); ++ki) {
		const struct kernel *k = &kernels[ki];
		if (k->is_rec)
			continue;
		if (only && strcmp(only, k->name) != 0)
			continue; /* "__dispatch_only__" matches no kernel */
		if (!has_feat(k->feat)) {
			printf("STAT skipped_kernel_%s 1\n", k->name);
			continue;
		}
		++variants;
		printf("STAT kernel_%s 1\n", k->name);
		/* (b) dense random, every nd, size 256, alternating guard side */
		for (nd = 1; nd <= 251; ++nd) {
			struct stripe s;
			front = nd & 1;
			stripe_alloc(&s, nd, k->level, 256, front);
			fill_data(&s, 0, 0, 0);
			run_gen_kernel(k, &s, "dense");
			fill_data(&s, 2, 0, 0);
			run_gen_kernel(k, &s, "sparse");
			++n_cases;
			stripe_free(&s);
		}
		/* sizes */
		{
			unsigned a, b;
			for (a = 0; a < sizeof(nds_sizes) / sizeof(int); ++a)
				for (b = 0; b < sizeof(sizes) / sizeof(size_t); ++b) {
					struct stripe s;
					stripe_alloc(&s, nds_sizes[a], k->level, sizes[b], (a + b) & 1);
					fill_data(&s, 0, 0, 0);
					run_gen_kernel(k, &s, "sizes");
					++n_cases;
					stripe_free(&s);
				}
			if (thorough) {
				size_t big[] = { 65536, 262144 };
				for (a = 0; a < 2; ++a) {
					struct stripe s;
					stripe_alloc(&s, 9, k->level, big[a], a);
					fill_data(&s, 0, 0, 0);
					run_gen_kernel(k, &s, "bigsize");
					++n_cases;
					stripe_free(&s);
				}
			}
		}
		/* (a) complete byte basis, one disk at a time */
		{
			int nds_basis_q[] = { 1, 2, 3, 32, 33, 251 };
			int nb = sizeof(nds_basis_q) / sizeof(int);
			int a;
			for (a = 0; a < (thorough ? 251 : nb); ++a) {
				int ndb = thorough ? a + 1 : nds_basis_q[a];
				struct stripe s;
				int d;
				/* in quick mode the basis is swept over all disks only for nd=251 (covers every column) */
				stripe_alloc(&s, ndb, k->level, 16384, a & 1);
				for (d = 0; d < ndb; ++d) {
					if (thorough && ndb != 251 && ndb > 40 && d != ndb - 1 && d != 0 && (d % 17) != (ndb % 17))
						continue;
					fill_data(&s, 1, d, d);
					run_gen_kernel(k, &s, "basis");
					++n_cases;
				}
				stripe_free(&s);
			}
		}
	}
	/* dispatcher (what the program actually selects), both modes */
	if (!only || !strcmp(only, "__dispatch_only__")) {
		int np, z;
		for (z = 0; z < 2; ++z)
			for (np = 1; np <= (z ? 3 : 6); ++np)
				for (nd = 1; nd <= 251; nd += (nd < 40 ? 1 : 7)) {
					struct stripe s;
					stripe_alloc(&s, nd, np, 512, nd & 1);
					fill_data(&s, 0, 0, 0);
					run_gen_dispatch(&s, z, "dispatch");
					++n_cases;
					stripe_free(&s);
				}
	}
	printf("STAT gen_variants %ld\n", variants);
	return 0;
}

/* ------------------------------------------------------------------ C03: recovery */
static void garbage(struct stripe *s, int idx)
{
	size_t b;
	rfill(s->g[idx].ptr, s->size);
	/* make sure it really differs from the original everywhere it matters */
	for (b = 0; b < s->size; b += 61)
		if (s->g[idx].ptr[b] == s->orig[idx][b])
			s->g[idx].ptr[b] ^= 0x41;
}

static int cmp_all(struct stripe *s, const int *skip, int nskip, uint8_t **expect)
{
	int i, j;
	for (i = 0; i < s->nd + s->np; ++i) {
		int sk = 0;
		for (j = 0; j < nskip; ++j)
			if (skip[j] == i)
				sk = 1;
		if (sk)
			continue;
		if (memcmp(s->g[i].ptr, expect[i], s->size) != 0)
			return i;
	}
	return -1;
}

static void fmt_set(char *buf, size_t n, const int *v, int c)
{
	int i;
	size_t o = 0;
	buf[0] = 0;
	for (i = 0; i < c && o + 8 < n; ++i)
		o += snprintf(buf + o, n - o, "%s%d", i ? "," : "", v[i]);
}

static long n_sets;

/* raid_rec through the dispatcher: failed set ir (data+parity) */
static void test_rec_dispatch(struct stripe *s, int zmode, int nr, int *ir)
{
	char key[128], set[128];
	int i, bad;
	stripe_load(s);
	for (i = 0; i < nr; ++i)
		garbage(s, ir[i]);
	cur_kernel = "raid_rec";
	cur_nd = s->nd;
	cur_np = s->np;
	cur_size = s->size;
	raid_mode(zmode ? RAID_MODE_VANDERMONDE : RAID_MODE_CAUCHY);
	{
		int irc[6];
		memcpy(irc, ir, nr * sizeof(int));
		raid_rec(nr, irc, s->nd, s->np, s->size, s->v);
		if (memcmp(irc, ir, nr * sizeof(int)) != 0)
			VIOL("rec-index-vector-modified:raid_rec", "nd=%d np=%d", s->nd, s->np);
	}
	++n_calls;
	++n_sets;
	bad = cmp_all(s, 0, 0, s->orig);
	if (bad >= 0) {
		fmt_set(set, sizeof(set), ir, nr);
		snprintf(key, sizeof(key), "rec-wrong:raid_rec%s", zmode ? "(z)" : "");
		VIOL(key, "nd=%d np=%d size=%zu failed={%s} block %d not equal to original", s->nd, s->np, s->size, set, bad);
	}
	i = stripe_canaries(s);
	if (i >= 0) {
		fmt_set(set, sizeof(set), ir, nr);
		VIOL("rec-stray-write:raid_rec", "nd=%d np=%d size=%zu failed={%s} slot %d", s->nd, s->np, s->size, set, i);
		stripe_reset_v(s);
	}
}

/* data-only recovery with chosen parities ip, through fn (raid_data or a direct kernel);
 * every parity < np that is not in ip is garbage as well (lost) and must stay untouched */
static void test_rec_data(struct stripe *s, int zmode, int nr, int *id, int *ip, rec_f *fn, const char *fname)
{
	char key[160], set[128], pset[64];
	uint8_t *expect[MAXB];
	uint8_t *saved[6];
	int i, j, bad, nsaved = 0;
	stripe_load(s);
	for (i = 0; i < nr; ++i)
		garbage(s, id[i]);
	for (i = 0; i < s->nd + s->np; ++i)
		expect[i] = s->orig[i];
	for (j = 0; j < s->np; ++j) {
		int used = 0;
		for (i = 0; i < nr; ++i)
			if (ip[i] == j)
				used = 1;
		if (!used) {
			garbage(s, s->nd + j);
			saved[nsaved] = malloc(s->size);
			memcpy(saved[nsaved], s->g[s->nd + j].ptr, s->size);
			expect[s->nd + j] = saved[nsaved];
			++nsaved;
		}
	}
	cur_kernel = fname;
	cur_nd = s->nd;
	cur_np = s->np;
	cur_size = s->size;
	raid_mode(zmode ? RAID_MODE_VANDERMONDE : RAID_MODE_CAUCHY);
	{
		int idc[6], ipc[6];
		memcpy(idc, id, nr * sizeof(int));
		memcpy(ipc, ip, nr * sizeof(int));
		if (fn)
			fn(nr, idc, ipc, s->nd, s->size, s->v);
		else
			raid_data(nr, idc, ipc, s->nd, s->size, s->v);
		if (memcmp(idc, id, nr * sizeof(int)) != 0 || memcmp(ipc, ip, nr * sizeof(int)) != 0) {
			snprintf(key, sizeof(key), "rec-index-vector-modified:%s", fname);
			VIOL(key, "nd=%d np=%d", s->nd, s->np);
		}
	}
	++n_calls;
	++n_sets;
	bad = cmp_all(s, 0, 0, expect);
	if (bad >= 0) {
		fmt_set(set, sizeof(set), id, nr);
		fmt_set(pset, sizeof(pset), ip, nr);
		snprintf(key, sizeof(key), "%s:%s%s", bad < s->nd ? "rec-wrong" : "rec-parity-modified", fname, zmode ? "(z)" : "");
		VIOL(key, "nd=%d np=%d size=%zu failed={%s} using parities {%s}: block %d differs", s->nd, s->np, s->size, set, pset, bad);
	}
	i = stripe_canaries(s);
	if (i >= 0) {
		fmt_set(set, sizeof(set), id, nr);
		snprintf(key, sizeof(key), "rec-stray-write:%s", fname);
		VIOL(key, "nd=%d np=%d size=%zu failed={%s} slot %d", s->nd, s->np, s->size, set, i);
		stripe_reset_v(s);
	}
	for (i = 0; i < nsaved; ++i)
		free(saved[i]);
}

static int comb_first(int r, int *c)
{
	int i;
	for (i = 0; i < r; ++i)
		c[i] = i;
	return 1;
}
static int comb_next(int r, int n, int *c)
{
	int i = r - 1, j;
	while (i >= 0 && c[i] == n - r + i)
		--i;
	if (i < 0)
		return 0;
	++c[i];
	for (j = i + 1; j < r; ++j)
		c[j] = c[j - 1] + 1;
	return 1;
}

static void rand_set(int r, int n, int *c, int bias_lo)
{
	/* r distinct sorted values in [0,n) biased to >= bias_lo when possible */
	int i, j;
	for (i = 0; i < r; ++i) {
		int v, dup;
		do {
			if (bias_lo < n && (rnd() & 3))
				v = bias_lo + rnd() % (n - bias_lo);
			else
				v = rnd() % n;
			dup = 0;
			for (j = 0; j < i; ++j)
				if (c[j] == v)
					dup = 1;
		} while (dup);
		c[i] = v;
	}
	for (i = 0; i < r; ++i)
		for (j = i + 1; j < r; ++j)
			if (c[j] < c[i]) {
				int t = c[i];
				c[i] = c[j];
				c[j] = t;
			}
}

static void test_check_scan(struct stripe *s, int zmode, int nr, int *ir, int do_scan)
{
	char set[128];
	int i, r;
	if (nr >= s->np)
		return;
	stripe_load(s);
	for (i = 0; i < nr; ++i)
		garbage(s, ir[i]);
	raid_mode(zmode ? RAID_MODE_VANDERMONDE : RAID_MODE_CAUCHY);
	cur_kernel = "raid_check";
	r = raid_check(nr, ir, s->nd, s->np, s->size, s->v);
	++n_calls;
	if (r != 0) {
		fmt_set(set, sizeof(set), ir, nr);
		VIOL("check-rejects-true-set", "nd=%d np=%d size=%zu T={%s} zmode=%d", s->nd, s->np, s->size, set, zmode);
	}
	/* every candidate that leaves one corrupted block unlisted must be rejected */
	for (i = 0; i < nr; ++i) {
		int cand[6], n = 0, j;
		for (j = 0; j < nr; ++j)
			if (j != i)
				cand[n++] = ir[j];
		r = raid_check(n, cand, s->nd, s->np, s->size, s->v);
		++n_calls;
		if (r == 0) {
			fmt_set(set, sizeof(set), ir, nr);
			VIOL("check-accepts-incomplete-set", "nd=%d np=%d size=%zu T={%s} candidate drops %d zmode=%d", s->nd, s->np, s->size, set, ir[i], zmode);
		}
		/* ... also when the candidate lists a healthy block instead */
		if (n + 1 < s->np) {
			int extra, tries = 0, ok;
			do {
				extra = rnd() % (s->nd + s->np);
				ok = 1;
				for (j = 0; j < nr; ++j)
					if (ir[j] == extra)
						ok = 0;
			} while (!ok && ++tries < 50);
			if (ok) {
				int c2[6], m = 0, placed = 0;
				for (j = 0; j < n; ++j) {
					if (!placed && extra < cand[j]) {
						c2[m++] = extra;
						placed = 1;
					}
					c2[m++] = cand[j];
				}
				if (!placed)
					c2[m++] = extra;
				r = raid_check(m, c2, s->nd, s->np, s->size, s->v);
				++n_calls;
				if (r == 0) {
					fmt_set(set, sizeof(set), c2, m);
					VIOL("check-accepts-incomplete-set", "nd=%d np=%d size=%zu candidate {%s} misses corrupted %d zmode=%d", s->nd, s->np, s->size, set, ir[i], zmode);
				}
			}
		}
	}
	if (do_scan) {
		int out[8];
		cur_kernel = "raid_scan";
		r = raid_scan(out, s->nd, s->np, s->size, s->v);
		++n_calls;
		if (r != nr || (nr && memcmp(out, ir, nr * sizeof(int)) != 0)) {
			char got[128];
			fmt_set(set, sizeof(set), ir, nr);
			fmt_set(got, sizeof(got), out, r > 0 ? r : 0);
			VIOL("scan-wrong-set", "nd=%d np=%d size=%zu T={%s} scan returned %d {%s} zmode=%d", s->nd, s->np, s->size, set, r, got, zmode);
		}
	}
	/* nothing may have been modified by check/scan */
	{
		uint8_t *expect[MAXB];
		int bad;
		for (i = 0; i < s->nd + s->np; ++i)
			expect[i] = s->orig[i];
		bad = cmp_all(s, ir, nr, expect);
		if (bad >= 0)
			VIOL("check-modifies-blocks", "nd=%d np=%d block %d", s->nd, s->np, bad);
	}
}

/* run every applicable direct rec kernel + raid_data for data failures id with parities ip */
static void test_all_rec_variants(struct stripe *s, int zmode, int nr, int *id, int *ip)
{
	int ki;
	test_rec_data(s, zmode, nr, id, ip, 0, "raid_data");
	for (ki = 0; ki < (int)(sizeof(kernels) / sizeof(kernels[0])); ++ki) {
		const struct kernel *k = &kernels[ki];
		if (!k->is_rec || !has_feat(k->feat))
			continue;
		if (k->level == 1 && nr != 1)
			continue;
		if (k->level == 2 && nr != 2)
			continue;
		if (k->level == 0 && nr < 3)
			continue;
		test_rec_data(s, zmode, nr, id, ip, (rec_f *)k->fn, k->name);
	}
}

static void rec_geometry_exhaustive(int nd, int np, int zmode, size_t size, int front)
{
	struct stripe s;
	int nr;
	stripe_alloc(&s, nd, np, size, front);
	fill_data(&s, 0, 0, 0);
	stripe_refparity(&s, zmode);
	/* all failure sets over data+parity through the dispatcher, + check/scan */
	for (nr = 1; nr <= np; ++nr) {
		int ir[6];
		if (nr > nd + np)
			break;
		comb_first(nr, ir);
		do {
			test_rec_dispatch(&s, zmode, nr, ir);
			test_check_scan(&s, zmode, nr, ir, (nd + np) <= 10);
		} while (comb_next(nr, nd + np, ir));
	}
	/* all data failure sets x all parity choices through raid_data and direct kernels */
	for (nr = 1; nr <= np && nr <= nd; ++nr) {
		int id[6];
		comb_first(nr, id);
		do {
			int ip[6];
			comb_first(nr, ip);
			do {
				test_all_rec_variants(&s, zmode, nr, id, ip);
			} while (comb_next(nr, np, ip));
		} while (comb_next(nr, nd, id));
	}
	++n_cases;
	stripe_free(&s);
}

static void rec_geometry_sampled(int nd, int np, int zmode, size_t size, int nsets, int front)
{
	struct stripe s;
	int t;
	stripe_alloc(&s, nd, np, size, front);
	fill_data(&s, 0, 0, 0);
	stripe_refparity(&s, zmode);
	for (t = 0; t < nsets; ++t) {
		int nr = 1 + rnd() % np;
		int ir[6], id[6], ip[6];
		int bias = (t % 3 == 0) ? 12 : (t % 3 == 1 ? 32 : nd - 1);
		if (bias >= nd)
			bias = nd > 1 ? nd - 1 : 0;
		rand_set(nr, nd + np, ir, bias);
		if (t % 5 == 0 && nr >= 1) { /* force the last column in */
			int j, has = 0;
			for (j = 0; j < nr; ++j)
				if (ir[j] == nd - 1)
					has = 1;
			if (!has && ir[0] < nd - 1) {
				ir[0] = nd - 1;
				/* resort */
				int a, b;
				for (a = 0; a < nr; ++a)
					for (b = a + 1; b < nr; ++b)
						if (ir[b] < ir[a]) {
							int x = ir[a];
							ir[a] = ir[b];
							ir[b] = x;
						}
				for (a = 1; a < nr; ++a)
					if (ir[a] == ir[a - 1]) {
						nr = a;
						break;
					}
			}
		}
		test_rec_dispatch(&s, zmode, nr, ir);
		test_check_scan(&s, zmode, nr, ir, 0);
		/* data-only with random parity choice */
		nr = 1 + rnd() % np;
		if (nr > nd)
			nr = nd;
		rand_set(nr, nd, id, bias < nd ? bias : 0);
		rand_set(nr, np, ip, 0);
		test_all_rec_variants(&s, zmode, nr, id, ip);
	}
	++n_cases;
	stripe_free(&s);
}

/* the generation kernels are also used INSIDE recovery (raid_delta_gen computes the parity of the surviving blocks with the
 * selected gen kernels, pointing the unused parities at a shared scratch buffer): recovery is therefore repeated with the gen
 * pointers set to every kernel family the CPU can run, as raid_init() would on other CPUs */
extern void (*raid_gen3_ptr)(int nd, size_t size, void **vv);
extern void (*raid_genz_ptr)(int nd, size_t size, void **vv);
extern void (*raid_gen_ptr[6])(int nd, size_t size, void **vv);

static const char *kfamily(const struct kernel *k)
{
	const char *u = strchr(k->name + 5, '_'); /* raid_genN_<family> */
	return u ? u + 1 : "";
}

static int do_rec_gen_families(int thorough)
{
	int ki, kj, nd, np, z;
	char seen[32][24];
	int nseen = 0, i;
	for (ki = 0; ki < (int)(sizeof(kernels) / sizeof(kernels[0])); ++ki) {
		const struct kernel *k = &kernels[ki];
		const char *fam;
		int known = 0, nset = 0;
		long before = n_sets;
		if (k->is_rec || !has_feat(k->feat))
			continue;
		fam = kfamily(k);
		for (i = 0; i < nseen; ++i)
			if (!strcmp(seen[i], fam))
				known = 1;
		if (known || nseen >= 32)
			continue;
		snprintf(seen[nseen++], sizeof(seen[0]), "%s", fam);
		raid_init();
		for (kj = 0; kj < (int)(sizeof(kernels) / sizeof(kernels[0])); ++kj) {
			const struct kernel *g = &kernels[kj];
			if (g->is_rec || !has_feat(g->feat) || strcmp(kfamily(g), fam) != 0)
				continue;
			if (g->zmode)
				raid_genz_ptr = (gen_f *)g->fn;
			else if (g->level == 3)
				raid_gen3_ptr = (gen_f *)g->fn;
			else if (g->level >= 1 && g->level <= 6)
				raid_gen_ptr[g->level - 1] = (gen_f *)g->fn;
			++nset;
		}
		for (z = 0; z < 2; ++z)
			for (np = (z ? 3 : 1); np <= (z ? 3 : 6); ++np)
				for (nd = 1; nd <= (thorough ? 6 : 4); ++nd)
					rec_geometry_exhaustive(nd, np, z, (nd + np) & 1 ? 64 : 320, nd & 1);
		printf("STAT family_%s_sets %ld\n", fam, n_sets - before);
		(void)nset;
	}
	raid_init();
	return 0;
}

static int do_rec(int thorough)
{
	int nd, np, z;
	size_t sizes[] = { 64, 256, 4096 };
	unsigned si = 0;
	/* exhaustive small geometries */
	for (z = 0; z < 2; ++z)
		for (np = 1; np <= (z ? 3 : 6); ++np)
			for (nd = 1; nd <= (thorough ? 10 : 8); ++nd) {
				if (z && np < 3)
					continue; /* z differs from cauchy only at level 3 */
				rec_geometry_exhaustive(nd, np, z, sizes[si++ % 3], (nd + np) & 1);
			}
	printf("STAT exhaustive_sets %ld\n", n_sets);
	/* scan on small stripes with whole-block garbage (unique by construction) */
	{
		long before = n_sets;
		int big[] = { 12, 13, 31, 32, 33, 64, 128, 250, 251 };
		unsigned a;
		if (!thorough) {
			for (a = 0; a < sizeof(big) / sizeof(int); ++a)
				for (z = 0; z < 2; ++z)
					for (np = (z ? 3 : 1); np <= (z ? 3 : 6); ++np)
						rec_geometry_sampled(big[a], np, z, sizes[(a + np) % 3], 40, (a + np) & 1);
		} else {
			for (nd = 7; nd <= 251; ++nd)
				for (z = 0; z < 2; ++z)
					for (np = (z ? 3 : 1); np <= (z ? 3 : 6); ++np)
						rec_geometry_sampled(nd, np, z, sizes[(nd + np) % 3], 60, (nd + np) & 1);
		}
		printf("STAT sampled_sets %ld\n", n_sets - before);
	}
	do_rec_gen_families(thorough);
	return 0;
}

/* ------------------------------------------------------------------ C03: minors */
/* DFS over column subsets with incremental elimination; rows subset fixed by mask */
static unsigned long long minors_done, minors_singular;
static int mrows[6], mk;
static const uint8_t *mtab; /* matrix base, 256 stride */

struct ech {
	uint8_t vec[6][6]; /* reduced vectors */
	int piv[6];
};

static void minors_dfs(int depth, int start, struct ech *e, int *cols, int ncols, int stride, int offset)
{
	int c;
	if (depth == mk) {
		++minors_done;
		return;
	}
	for (c = start; c <= ncols - (mk - depth); ++c) {
		uint8_t v[6];
		int i, j, piv = -1;
		if (depth == 0 && stride > 1 && (c % stride) != offset)
			continue;
		for (i = 0; i < mk; ++i)
			v[i] = mtab[mrows[i] * 256 + c];
		for (j = 0; j < depth; ++j) {
			uint8_t f = v[e->piv[j]];
			if (f)
				for (i = 0; i < mk; ++i)
					v[i] ^= MUL[f][e->vec[j][i]];
		}
		for (i = 0; i < mk; ++i)
			if (v[i]) {
				piv = i;
				break;
			}
		cols[depth] = c;
		if (piv < 0) {
			/* the depth+1 chosen columns are dependent in these rows: every completion is singular */
			char set[64], rset[64];
			++minors_singular;
			fmt_set(set, sizeof(set), cols, depth + 1);
			fmt_set(rset, sizeof(rset), mrows, mk);
			VIOL("singular-minor", "rows {%s} columns {%s} are linearly dependent", rset, set);
			continue;
		}
		{
			uint8_t iv = INV[v[piv]];
			for (i = 0; i < mk; ++i)
				e->vec[depth][i] = MUL[iv][v[i]];
			e->piv[depth] = piv;
		}
		minors_dfs(depth + 1, c + 1, e, cols, ncols, stride, offset);
	}
}

static int do_minors(int zmode, int order, int stride, int offset)
{
	int nrows = zmode ? 3 : 6;
	int rsel[6];
	mtab = zmode ? &raid_gfvandermonde[0][0] : &raid_gfcauchy[0][0];
	mk = order;
	if (order > nrows)
		return 0;
	comb_first(order, rsel);
	do {
		struct ech e;
		int cols[6];
		memcpy(mrows, rsel, sizeof(int) * order);
		minors_dfs(0, 0, &e, cols, 251, stride, offset);
	} while (comb_next(order, nrows, rsel));
	printf("STAT minors_order%d_%s %llu\n", order, zmode ? "z" : "c", minors_done);
	return 0;
}

/* sampled minors of a given order by explicit determinant */
static int do_minors_sampled(int zmode, int order, long count)
{
	int nrows = zmode ? 3 : 6;
	const uint8_t *tab = zmode ? &raid_gfvandermonde[0][0] : &raid_gfcauchy[0][0];
	long t;
	if (order > nrows)
		return 0;
	for (t = 0; t < count; ++t) {
		int rows[6], cols[6], i, j, k;
		uint8_t m[6][6];
		int singular = 0;
		rand_set(order, nrows, rows, 0);
		rand_set(order, 251, cols, (t & 1) ? 200 : 0);
		for (i = 0; i < order; ++i)
			for (j = 0; j < order; ++j)
				m[i][j] = tab[rows[i] * 256 + cols[j]];
		for (k = 0; k < order && !singular; ++k) {
			int p = -1;
			for (i = k; i < order; ++i)
				if (m[i][k]) {
					p = i;
					break;
				}
			if (p < 0) {
				singular = 1;
				break;
			}
			if (p != k)
				for (j = 0; j < order; ++j) {
					uint8_t x = m[k][j];
					m[k][j] = m[p][j];
					m[p][j] = x;
				}
			for (i = k + 1; i < order; ++i)
				if (m[i][k]) {
					uint8_t f = MUL[m[i][k]][INV[m[k][k]]];
					for (j = k; j < order; ++j)
						m[i][j] ^= MUL[f][m[k][j]];
				}
		}
		++minors_done;
		if (singular) {
			char set[64], rset[64];
			fmt_set(set, sizeof(set), cols, order);
			fmt_set(rset, sizeof(rset), rows, order);
			VIOL("singular-minor", "rows {%s} columns {%s} (sampled)", rset, set);
		}
	}
	printf("STAT minors_sampled_order%d_%s %ld\n", order, zmode ? "z" : "c", count);
	return 0;
}

/* ------------------------------------------------------------------ C16: vectors */
/* print parity of a deterministic stripe (independent of the library rng) so that
 * python can compare it with vectors stored from the reference version */
static int do_vector(int nd, int np, int zmode, size_t size, unsigned seed)
{
	struct stripe s;
	int i, j;
	size_t b;
	stripe_alloc(&s, nd, np, size, 0);
	for (i = 0; i < nd; ++i) {
		uint32_t x = seed * 2654435761u + i * 40503u + 12345u;
		for (b = 0; b < size; ++b) {
			x = x * 1664525u + 1013904223u;
			s.orig[i][b] = (uint8_t)(x >> 24);
		}
	}
	stripe_load(&s);
	raid_mode(zmode ? RAID_MODE_VANDERMONDE : RAID_MODE_CAUCHY);
	raid_gen(nd, np, size, s.v);
	for (j = 0; j < np; ++j) {
		/* FNV-1a 64 of the parity block + first 16 bytes */
		uint64_t h = 1469598103934665603ULL;
		for (b = 0; b < size; ++b)
			h = (h ^ s.g[nd + j].ptr[b]) * 1099511628211ULL;
		printf("VEC %d %d %d %zu %u %d %016llx ", nd, np, zmode, size, seed, j, (unsigned long long)h);
		for (b = 0; b < 16; ++b)
			printf("%02x", s.g[nd + j].ptr[b]);
		printf("\n");
	}
	stripe_free(&s);
	return 0;
}

int main(int argc, char **argv)
{
	struct sigaction sa;
	uint8_t *zero;
	const char *cmd = argc > 1 ? argv[1] : "";
	memset(&sa, 0, sizeof(sa));
	sa.sa_sigaction = on_fault;
	sa.sa_flags = SA_SIGINFO;
	sigaction(SIGSEGV, &sa, 0);
	sigaction(SIGBUS, &sa, 0);
	sigaction(SIGABRT, &sa, 0);
	sigaction(SIGILL, &sa, 0);
	setvbuf(stdout, 0, _IOLBF, 0);
	ref_init();
	raid_init();
	{
		struct gbuf z = galloc(262144, 1);
		memset(z.ptr, 0, 262144);
		zero = z.ptr;
		raid_zero(zero);
	}
	if (!strcmp(cmd, "tables")) {
		do_tables();
	} else if (!strcmp(cmd, "gen")) {
		rseed(argc > 2 ? strtoull(argv[2], 0, 10) : 1);
		do_gen(argc > 3 && !strcmp(argv[3], "thorough"), argc > 4 ? argv[4] : 0);
	} else if (!strcmp(cmd, "rec")) {
		rseed(argc > 2 ? strtoull(argv[2], 0, 10) : 1);
		do_rec(argc > 3 && !strcmp(argv[3], "thorough"));
	} else if (!strcmp(cmd, "minors")) {
		/* minors <z> <order> <stride> <offset> */
		do_minors(atoi(argv[2]), atoi(argv[3]), argc > 4 ? atoi(argv[4]) : 1, argc > 5 ? atoi(argv[5]) : 0);
	} else if (!strcmp(cmd, "minors-sampled")) {
		rseed(argc > 5 ? strtoull(argv[5], 0, 10) : 1);
		do_minors_sampled(atoi(argv[2]), atoi(argv[3]), atol(argv[4]));
	} else if (!strcmp(cmd, "vector")) {
		do_vector(atoi(argv[2]), atoi(argv[3]), atoi(argv[4]), strtoul(argv[5], 0, 10), strtoul(argv[6], 0, 10));
	} else if (!strcmp(cmd, "list")) {
		unsigned i;
		for (i = 0; i < sizeof(kernels) / sizeof(kernels[0]); ++i)
			printf("KERNEL %s rec=%d level=%d z=%d feat=%s runnable=%d\n", kernels[i].name, kernels[i].is_rec,
				kernels[i].level, kernels[i].zmode, kernels[i].feat, has_feat(kernels[i].feat));
	} else {
		fprintf(stderr, "usage: raidmon tables|gen|rec|minors|minors-sampled|vector|list\n");
		return 2;
	}
	printf("STAT calls %ld\n", n_calls);
	printf("STAT cases %ld\n", n_cases);
	printf("STAT sets %ld\n", n_sets);
	printf("STAT minors_total %llu\n", minors_done);
	printf("STAT violations %ld\n", n_viol);
	printf("DONE\n");
	return 0;
}
