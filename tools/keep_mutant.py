#!/usr/bin/python3
"""keep_mutant.py <id> <worktree> <property> <needs> <ran...>  - archive a confirmed seeded change under /verif/seeded/<id>/ and drop the worktree"""
import json, os, shutil, subprocess, sys
mid, wt, prop, needs = sys.argv[1:5]
ran = sys.argv[5:]
dst = os.path.join("/verif/seeded", mid)
os.makedirs(dst, exist_ok=True)
shutil.copy(os.path.join(wt, "mutant.patch"), os.path.join(dst, "patch.diff"))
for n in ("demo.sh", "NOTES.md"):
    if os.path.exists(os.path.join(wt, n)):
        shutil.copy(os.path.join(wt, n), os.path.join(dst, n))
if os.path.isdir(os.path.join(wt, "demo")):
    shutil.copytree(os.path.join(wt, "demo"), os.path.join(dst, "demo"), dirs_exist_ok=True)
meta = {"id": mid, "breaks_property": prop, "needs_to_manifest": needs, "what_was_run": ran,
        "origin": "independent sub-agent given only the property text and a scratch worktree",
        "base_commit": subprocess.run(["git", "-C", "/repo", "log", "--format=%h", "-1"], stdout=subprocess.PIPE).stdout.decode().strip()}
json.dump(meta, open(os.path.join(dst, "meta.json"), "w"), indent=1)
subprocess.run(["git", "-C", "/repo", "worktree", "remove", "--force", wt])
subprocess.run(["git", "-C", "/repo", "worktree", "prune"])
print("kept", dst, os.listdir(dst))
