#!/usr/bin/python3
"""Regenerate the table of section 10 of DESIGN.md from seeded/*/meta.json."""
import glob, json, os, re
root = os.path.dirname(os.path.dirname(os.path.abspath(__file__)))
rows = []
def key(p):
    b = os.path.basename(os.path.dirname(p))
    return (b[0], int(re.sub(r"\D", "", b) or 0), b)
for p in sorted(glob.glob(root + "/seeded/*/meta.json"), key=key):
    m = json.load(open(p))
    if m["id"].startswith("R-"):
        continue
    need = m["needs_to_manifest"].replace("|", "/").replace("\n", " ")
    if len(need) > 260:
        need = need[:257] + "..."
    rows.append("| %s | %s | %s | %s | %s |" % (m["id"], m["breaks_property"], need, m.get("caught_by", "?"), m.get("check_change", "")))
for p in sorted(glob.glob(root + "/seeded/R-*/meta.json"), key=key):
    m = json.load(open(p))
    rows.append("| %s | %s | %s | %s | %s |" % (m["id"], m["breaks_property"], m["kind"], m.get("caught_by", m["breaks_property"]), m.get("check_change", "")))
d = open(root + "/DESIGN.md").read()
a = d.index("<!-- seeded-table-begin -->")
b = d.index("<!-- seeded-table-end -->")
d = d[:a] + "<!-- seeded-table-begin -->\n" + "\n".join(rows) + "\n" + d[b:]
open(root + "/DESIGN.md", "w").write(d)
print(len(rows), "rows")
