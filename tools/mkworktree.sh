#!/bin/sh
# usage: mkworktree.sh <dir>   - scratch git worktree of /repo HEAD with the (untracked) autotools files, configured and built
set -e
D="$1"
git -C /repo worktree add -q --detach "$D" HEAD
for f in Makefile.in configure config.h.in aclocal.m4 compile config.guess config.sub install-sh missing depcomp test-driver; do
  [ -e /repo/$f ] && cp -p /repo/$f "$D/" || true
done
cd "$D"
./configure -q >/dev/null 2>&1
make -j8 >/dev/null 2>&1
ls -la "$D/snapraid" >/dev/null
echo "worktree ready: $D (run 'make -j8' to rebuild, 'make -k -j8 check VERBOSE=1' for the test suite)"
