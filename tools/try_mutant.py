#!/usr/bin/python3
"""Apply a seeded change to /repo, run checks, undo it.  usage: try_mutant.py <patch> <Cxx>[,Cyy...] [--tier quick|thorough] [--seeds 1,2] [--scale f]
Prints one line per (check, seed): DETECTED (exit 1 + VIOLATION), MISSED (exit 0), INCONCLUSIVE (exit 2)."""
import argparse
import json
import os
import subprocess
import sys

ap = argparse.ArgumentParser()
ap.add_argument("patch")
ap.add_argument("checks")
ap.add_argument("--tier", default="quick")
ap.add_argument("--seeds", default="1")
ap.add_argument("--scale", default="1")
a = ap.parse_args()

st = subprocess.run(["git", "-C", "/repo", "status", "--porcelain", "--untracked-files=no"], stdout=subprocess.PIPE).stdout.decode().strip()
if st:
    print("refusing: /repo has uncommitted changes to tracked files:\n" + st)
    sys.exit(3)
r = subprocess.run(["git", "-C", "/repo", "apply", "--whitespace=nowarn", os.path.abspath(a.patch)], stderr=subprocess.PIPE)
if r.returncode != 0:
    print("patch does not apply:", r.stderr.decode()[-500:])
    sys.exit(3)
results = []
evdir = "/dev/shm/verif-mutant-evidence.%d" % os.getpid()
env = dict(os.environ, VERIF_EVIDENCE_DIR=evdir)
try:
    for chk in a.checks.split(","):
        for seed in a.seeds.split(","):
            p = subprocess.run([os.path.join("/verif", "vcheck"), chk, "--tier", a.tier, "--seed", seed, "--scale", a.scale],
                               stdout=subprocess.PIPE, stderr=subprocess.STDOUT, cwd="/verif", env=env)
            out = p.stdout.decode("latin-1")
            keys = [l.strip()[4:] for l in out.splitlines() if l.strip().startswith("key=")]
            verdict = {0: "MISSED", 1: "DETECTED", 2: "INCONCLUSIVE"}.get(p.returncode, "rc%d" % p.returncode)
            print("%s %s seed=%s: %s %s" % (os.path.basename(os.path.dirname(os.path.abspath(a.patch))) or a.patch, chk, seed, verdict, sorted(set(keys))[:4]))
            results.append((chk, seed, verdict, sorted(set(keys))[:6]))
            if verdict not in ("MISSED", "DETECTED"):
                print("    | " + "\n    | ".join(out.splitlines()[-15:]))
            sys.stdout.flush()
finally:
    subprocess.run(["git", "-C", "/repo", "checkout", "--", "."])
    subprocess.run(["git", "-C", "/repo", "clean", "-fdq", "cmdline", "raid", "tommyds"])
    import shutil
    shutil.rmtree(evdir, ignore_errors=True)
    st = subprocess.run(["git", "-C", "/repo", "status", "--porcelain", "--untracked-files=no"], stdout=subprocess.PIPE).stdout.decode().strip()
    if st:
        print("WARNING: /repo not clean after undo:\n" + st)
print(json.dumps(results))
