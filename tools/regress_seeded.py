#!/usr/bin/python3
"""Re-run every archived seeded change against the check(s) named in its meta.json (caught_by, else breaks_property).
usage: regress_seeded.py [--seed n] [ids...]   Prints one line per (change, check)."""
import glob, json, os, subprocess, sys
root = os.path.dirname(os.path.dirname(os.path.abspath(__file__)))
seed = "1"
ids = []
a = sys.argv[1:]
while a:
    x = a.pop(0)
    if x == "--seed":
        seed = a.pop(0)
    else:
        ids.append(x)
bad = 0
for p in sorted(glob.glob(root + "/seeded/*/meta.json")):
    m = json.load(open(p))
    if ids and m["id"] not in ids:
        continue
    chk = (m.get("caught_by") or m["breaks_property"]).split(",")[0].strip().split()[0]
    r = subprocess.run([sys.executable, root + "/tools/try_mutant.py", os.path.dirname(p) + "/patch.diff", chk, "--seeds", seed],
                       stdout=subprocess.PIPE, stderr=subprocess.STDOUT)
    line = [l for l in r.stdout.decode("latin-1").splitlines() if " seed=" in l]
    print(m["id"], line[0] if line else r.stdout.decode("latin-1")[-300:], flush=True)
    if not line or "DETECTED" not in line[0]:
        bad += 1
print("not detected:", bad)
