/*
 * cmdmon - calls functions of the current tree's cmdline objects directly (C16 hashes/CRC,
 * C18 filter functions).  Linked with every snapraid object; main() of snapraid.c is
 * renamed to snapraid_main by the build.
 *
 *   hashvec <kind 1|2> <seedidx>      digests of base[:L] for L = 0..1100  -> "H <L> <hex>"
 *   crcvec                            crc32c_gen / crc32c_x86 / crc32c of base[:L] -> "C <L> <gen> <x86|-> <ptr>"
 *   filter                            stdin protocol, see below
 */
#include "cmdline/portable.h"
#include "cmdline/util.h"
#include "cmdline/elem.h"
#include "cmdline/support.h"

#define MAXLEN 1100

static unsigned char base[MAXLEN + 64];

static void make_base(unsigned seedidx)
{
	unsigned i;
	uint32_t x = 0x9E3779B9u * (seedidx + 1) + 12345u;
	for (i = 0; i < sizeof(base); ++i) {
		x = x * 1664525u + 1013904223u;
		base[i] = (unsigned char)(x >> 24);
	}
}

static void make_seed(unsigned seedidx, unsigned char* seed)
{
	unsigned i;
	for (i = 0; i < 16; ++i)
		seed[i] = (unsigned char)(seedidx * 17 + i * 29 + (seedidx ? 3 : 0));
	if (seedidx == 0)
		memset(seed, 0, 16);
}

static void hexout(const unsigned char* p, unsigned n)
{
	unsigned i;
	for (i = 0; i < n; ++i)
		printf("%02x", p[i]);
}

static int read_line(char* buf, size_t n)
{
	size_t l;
	if (!fgets(buf, n, stdin))
		return 0;
	l = strlen(buf);
	if (l && buf[l - 1] == '\n')
		buf[l - 1] = 0;
	return 1;
}

/* decode %xx escapes in place */
static void unesc(char* s)
{
	char* o = s;
	while (*s) {
		if (*s == '%' && s[1] && s[2]) {
			char h[3] = { s[1], s[2], 0 };
			*o++ = (char)strtol(h, 0, 16);
			s += 3;
		} else {
			*o++ = *s++;
		}
	}
	*o = 0;
}

/*
 * filter protocol (one request per line, strings %xx-escaped):
 *   R                      reset rule list
 *   I <pattern>            append include rule (file form)      E <pattern>  exclude
 *   i <pattern>            append include rule (disk form)      e <pattern>  exclude
 *   P <disk> <sub>         -> "p <filter_path result>"
 *   D <disk> <sub>         -> "d <filter_subdir result>"
 *   M <disk> <sub>         -> "m <filter_emptydir result>"
 */
static int do_filter(void)
{
	static char line[3 * PATH_MAX];
	tommy_list list;
	tommy_list_init(&list);
	while (read_line(line, sizeof(line))) {
		char* a = line + 2;
		char* b;
		if (line[0] == 'R') {
			tommy_list_foreach(&list, (tommy_foreach_func*)filter_free);
			tommy_list_init(&list);
			continue;
		}
		if (line[0] == 'I' || line[0] == 'E' || line[0] == 'i' || line[0] == 'e') {
			struct snapraid_filter* f;
			unesc(a);
			if (line[0] == 'I' || line[0] == 'E')
				f = filter_alloc_file(line[0] == 'I' ? 1 : -1, a);
			else
				f = filter_alloc_disk(line[0] == 'i' ? 1 : -1, a);
			if (!f) {
				printf("x invalid\n");
			} else {
				tommy_list_insert_tail(&list, &f->node, f);
				printf("x ok path=%d dir=%d disk=%d\n", f->is_path, f->is_dir, f->is_disk);
			}
			fflush(stdout);
			continue;
		}
		b = strchr(a, ' ');
		if (!b)
			continue;
		*b++ = 0;
		unesc(a);
		unesc(b);
		if (line[0] == 'P')
			printf("p %d\n", filter_path(&list, 0, a, b));
		else if (line[0] == 'D')
			printf("d %d\n", filter_subdir(&list, 0, a, b));
		else if (line[0] == 'M')
			printf("m %d\n", filter_emptydir(&list, 0, a, b));
		fflush(stdout);
	}
	return 0;
}

int main(int argc, char** argv)
{
	const char* cmd = argc > 1 ? argv[1] : "";
	crc32c_init();
	if (!strcmp(cmd, "hashvec")) {
		unsigned kind = atoi(argv[2]);
		unsigned seedidx = atoi(argv[3]);
		unsigned char seed[16], digest[16];
		unsigned L;
		make_base(seedidx);
		make_seed(seedidx, seed);
		for (L = 0; L <= MAXLEN; ++L) {
			/* exact-size heap copy so that ASan sees any read past the end */
			unsigned char* copy = malloc(L ? L : 1);
			memcpy(copy, base, L);
			memset(digest, 0, 16);
			memhash(kind, seed, digest, copy, L);
			printf("H %u ", L);
			hexout(digest, 16);
			printf("\n");
			free(copy);
		}
	} else if (!strcmp(cmd, "crcvec")) {
		unsigned L;
		make_base(7);
		for (L = 0; L <= MAXLEN; ++L) {
			unsigned char* copy = malloc(L ? L : 1);
			memcpy(copy, base, L);
			printf("C %u %08x ", L, crc32c_gen(0x12345678u, copy, L));
#if HAVE_SSE42
			if (crc_x86)
				printf("%08x ", crc32c_x86(0x12345678u, copy, L));
			else
				printf("- ");
#else
			printf("- ");
#endif
			printf("%08x\n", crc32c(0, copy, L));
			free(copy);
		}
	} else if (!strcmp(cmd, "filter")) {
		return do_filter();
	} else {
		fprintf(stderr, "usage: cmdmon hashvec|crcvec|filter\n");
		return 2;
	}
	printf("DONE\n");
	return 0;
}
